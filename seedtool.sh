#!/bin/bash
# seedtool.sh confirm <ID>   : re-confirm a seeded change in its scratch worktree /tmp/seed_<ID>
# seedtool.sh run <ID> <check ids...> : apply /verif/seeded/<ID>/patch.diff to /repo, run the checks, revert
set -u
cmd=$1; id=$2; shift 2
case $cmd in
confirm)
  wt=/tmp/seed_$id; out=$wt/seed_out
  cd $wt || exit 1
  git apply -R $out/patch.diff 2>/dev/null; git apply --check $out/patch.diff || { echo "patch does not apply"; exit 1; }
  echo "== demo WITHOUT change"; cargo test -p sylvia --test seed_demo --offline 2>&1 | grep -E "^test result|error" | head -3
  git apply $out/patch.diff
  echo "== demo WITH change"; cargo test -p sylvia --test seed_demo --offline 2>&1 | grep -E "^test result|error" | head -3
  echo "== suite WITH change (demo moved away)"; mv sylvia/tests/seed_demo.rs /tmp/seed_demo_$id.rs
  cargo test --workspace --no-fail-fast --offline 2>&1 | grep -E "^test result" | awk '{p+=$4; f+=$6} END {print "passed",p,"failed",f}'
  mv /tmp/seed_demo_$id.rs sylvia/tests/seed_demo.rs
  ;;
run)
  cd /repo && git apply /verif/seeded/$id/patch.diff || exit 1
  cd /verif
  for c in "$@"; do echo "== $c on seeded $id"; VERIF_EVIDENCE_DIR=/var/tmp/ev ./vcheck $c 2>&1 | grep -E "VIOLATION|INCONCLUSIVE|KNOWN|harnesses:|fail " | head -8; done
  cd /repo && git checkout -- . && git status --short
  ;;
esac
