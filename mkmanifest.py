#!/usr/bin/env python3
"""Regenerates MANIFEST.json from the table below; validates against the schema when available."""
import json, os, sys
HERE = os.path.dirname(os.path.abspath(__file__))
ids = [json.loads(l)["id"] for l in open(os.path.join(HERE, "properties.jsonl"))]

TECH = "bounded model checking of the real code: Kani 0.68 -> CBMC 6.11 (cadical SAT); symbolic inputs, concrete sizes, unwinding assertions on; counterexamples replayed natively"

CLAIMED = {
 "C15": dict(
   text="A generic contract Gc<A,B,V,R,U,W> (A used directly and AGAIN after B and V -- so a de-duplication that only looks at adjacent uses shows up --, B only inside Option, V only inside Vec, R only as a query response, U unused, W under a where-bound relating it to A) and an interface with associated types are expanded by the real macros; the harness crate NAMES each generated type with exactly the expected parameters (ExecMsg<A,B,V>, QueryMsg<R>, SudoMsg<W>, InstantiateMsg, IfgExecMsg<T1>, IfgQueryMsg<T2>) and equates them with the ContractApi aliases (compile gate), and CBMC decides differentially against a non-generic twin, over symbolic values: same serde events, same accepted names (phantom placeholder never accepted, contract and interface messages), same decode verdict and value, same handler and argument on dispatch (including the interface arm). A second generic contract Gs<P,Q> uses P ONLY through `resp=P` on a query and Q only in a query argument: QueryMsg<P,Q> is named and constructed (compile gate). A third generic contract Gp<T,X,U,Y> reaches its parameters only through MULTI-SEGMENT paths (std::vec::Vec<T>, core::option::Option<X>, self::Wrap<Y>) and bounds Y in two separate where-predicates, one of them relating it to T: ExecMsg<T>, SudoMsg<X>, QueryMsg<Y>, InstantiateMsg are named, equated with the ContractApi aliases (compile gate -- it found that two predicates on one parameter made the helper traits declare an associated type twice; fixed), and CBMC decides that they accept exactly their methods' names (2 symbolic bytes) and encode as usual.",
   note="the parameter lists / where-clauses themselves are token-level facts decided only through the compile gate; one instantiation; program dimension sampled by three generic contracts + one interface",
   ref="§3 C15"),
 "C14": dict(
   text="The same program is expanded by the real macros in three declaration orders (methods of the impl, methods of the interface trait, #[sv::messages] and #[sv::override_entry_point] attributes permuted: written, reversed, rotated). CBMC decides differentially, over symbolic inputs: published name lists identical; every received 2-byte name accepted by the same message types; equal messages serialise to equal events; the same exec/sudo/instantiate/migrate message through each twin's entry point runs the same handler with the same arguments and outcome; a reply for a shared handler name (success method with #[sv::data] + error method, in either order) and for a solo name reaches the same method with the same arguments (only id constants differ). That every order is ACCEPTED with the same set of entry points is the compile gate (which also builds the generic corpus contract) -- it found the data-parameter merge defect (fixed).",
   note="3 of n! permutations sampled; query results compared per order in C02 only; stubs: Backtrace::capture, fmt::format",
   ref="§3 C14"),
 "C17": dict(
   text="CBMC decides, through the derived (de)serialisers of corpus `attrs`: #[sv::msg_attr(kind, serde(deny_unknown_fields))] forwarded to exec and migrate (contract) and to query (interface) makes exactly those three of seven generated types reject a body with an unknown key (symbolic values); #[sv::attr(serde(rename=\"zz\"))] on one handler makes exactly that variant answer to `zz` (received names of length 2..5 with symbolic bytes: accepted set = {zz, args, other}; `ren` is not accepted) and serialise under it; #[serde(default)] / #[serde(rename=\"k\")] written on handler arguments -- also wrapped in #[cfg_attr(.., serde(default))] -- make that field optional / keyed `k` (body layouts with symbolic values); two separate attributes with the SAME path on one argument (#[serde(default)] then #[serde(rename=\"w\")]) both land on the field. Several attributes forwarded to ONE kind (two separate derive(..) per struct/enum kind, either order) all arrive: compile gate naming the derived traits.",
   note="attributes without run-time effect (derives, docs) are token-level facts decided only through the compile gate (derives) or outside the claim (docs); contract-level routing of a variant renamed through sv::attr is outside (the published list keeps the method name; see DESIGN §6); JSON text layer outside",
   ref="§3 C17"),
 "C10": dict(
   text="CBMC decides, for every generated Executor helper of corpus `basic` (5 contract methods through a contract-typed handle; interface methods through dyn-Interface and contract-typed handles) with ALL argument values symbolic, and for argument-less helpers of corpus `names` whose identifiers hold digits / unusual underscores (the helper's own name follows another casing rule than the wire name): the helper yields an execute message addressed to the handle's address, carrying the funds set on the builder (symbolic amount), whose body is -- at the serde data-model level, recorded by replacing to_json_binary -- exactly the message {method: {args}} of that same method (C01 oracle), whose name is in the target's published list (routable, C03); the generated instantiate helper + InstantiateBuilder give code id, flat arguments, admin, label (empty when unset) and funds, and with a salt (2 symbolic bytes, and the EMPTY salt) the instantiate2 message carrying that salt; Remote::executor / update_admin / clear_admin keep the (symbolic) address.",
   note="JSON text of the body outside (to_json_binary intercepted by the facade); the QUERY helper is outside (QuerierWrapper serialises / parses text: DESIGN P5); address content is symbolic on Remote->builder and builder->message but concrete through the generated helper (read-back does not finish); program dimension sampled",
   ref="§3 C10"),
 "C20": dict(
   text="CBMC decides, for Remote<'_, T> with T in {two corpus contracts, dyn Interface<Error=..> of two interfaces, ()}, owned and borrowed, address bytes symbolic at lengths 0,1,3,4: the recorded serde events are exactly the struct {addr: <address string>} for every parameterisation; {addr: s} (also with an extra member) decodes to a handle whose address is s, while a missing, duplicated or non-string addr is an error; decode->encode round trip; schema_name is `Remote` for all T (harness, plus a native input-free fact over 5 parameterisations incl. nested generics, labelled not solver-derived).",
   note="JSON text layer and schema body outside; addresses <= 4 bytes; trusted: Kani/CBMC/cadical, support drivers",
   ref="§3 C20"),
 "C06": dict(
   text="For 10 override configurations (real #[entry_points] expansion) CBMC decides, for EVERY entry point the configuration must emit (39 in total: instantiate/execute/query/sudo minus the overridden kinds, plus migrate/reply when such a handler exists and is not overridden), over all message arguments, env, info, storage tags and handler outcomes, that it builds the contract with new(), dispatches with the given deps/env/info (reply: dispatch_reply with gas and payload) and returns the dispatch outcome with the contract's error type. That exactly the expected entry points exist -- presence by naming them, ABSENCE of overridden / handler-less ones by glob-import ambiguity probes -- is decided by the compile gate; this is how the wrong `query` override mapping was found (fixed).",
   note="presence/absence is a compile-gate fact (not solver-derived); 10 of the 2^6 x 2 x 2 configurations are sampled; generic #[entry_points(generics<..>)] and the legacy reply entry point are outside; stubs: Backtrace::capture, fmt::format",
   ref="§3 C06"),
 "C04": dict(
   text="CBMC decides, for the real #[entry_points] expansion of corpus `basic` (19 handlers in 5 kinds, wire name `tick{n}` present as exec, query AND sudo, instantiate and migrate sharing their argument names): every well-formed message of kind K1 (symbolic choice and argument values), decoded by the real contract-level message of kind K2 != K1 and, when accepted, pushed through entry_points::<K2> with echo handlers, never runs a handler annotated with another kind; it is rejected unless K2 itself has a message of that name/shape, in which case K2's OWN handler runs. One harness per ordered pair of kinds; the compile gate additionally builds corpus `names` (identifiers with leading/trailing/double underscores and digits) with typed references to its entry points. It also names every entry point of the 10 override configurations of corpus `ovr` with the message type of its own kind (an override registered under another kind changes which entry points exist and what they take). The MULTITEST path is decided too: the generated `impl cw_multi_test::Contract` (execute/instantiate/query/sudo/migrate) of a contract without migrate handler and of `basic`, with from_json replaced by a serde-doc decoder, accepts on each operation exactly the messages of its own kind.",
   note="facade container model (validated by a native pre-flight against the real container); JSON text layer outside on both paths (multitest: sylvia::cw_std::from_json replaced by the facade, feature mt_docs); the reply kind and the cw-multi-test App around the Contract impl are outside; error text stubbed; program dimension sampled by one contract + 2 interfaces",
   ref="§3 C04"),
 "C03": dict(
   text="CBMC runs the REAL generated Contract{Exec,Query,Sudo}Msg::deserialize glue (and the derived decoders of every part on the same document) for a received name with symbolic bytes of each length 3..7, concrete body layouts with symbolic values, and the top-level shapes string/null/number/{}/two keys/{name:number}: the wrapper accepts iff exactly one part accepts, holds that part's variant with a payload equal to the part's own decoding; everything else is an error without panic; the wrapper serialises to the same serde events as the part. For corpus `names` (leading/repeated underscores, digits) the published list equals the set of names the decoder accepts, for every received name of length 1..8.",
   note="the serde_cw_value container is replaced by a bounded two-level model (hw/facade; <=3 entries, strings <=8 bytes; overflow asserted absent) which is validated natively against the real container and real JSON text on 40 documents in every run (pre-flight), the error TEXT (format!, String::push_str stubbed) and the JSON text layer are outside; program dimension sampled (3 corpus contracts)",
   ref="§3 C03"),
 "C01": dict(
   text="CBMC decides, over the derived (de)serialisers of the message types the real macros generate for corpus `basic` (contract: 5 kinds; two interfaces), driven through the serde data model: (a) for symbolic variant and argument values the recorded serde events are exactly {name:{arg:value..}} with the arguments in declaration order (flat struct for instantiate/migrate) and constructors equal literals; (c) for a symbolic received name of each length 3..7 the type accepts it iff it is the name of a method of that kind (hand-written list) -- and iff it is in the published list; for 10 body layouts with symbolic values decoding succeeds iff every argument is present exactly once and in range, and the decoded value re-serialises to the oracle's events; the internal type-parameter placeholder variant of GENERIC contract / interface messages is not accepted under any casing; argument names with a trailing / leading underscore or a digit (`type_`, `_lead`, `x2`, flat `ref_`) are the wire keys verbatim in both directions.",
   note="JSON text layer (serde_json_wasm) outside: harness-supplied Serializer/Deserializer stand in its place; argument types u8/u32/u64/bool; names <= 7 bytes; program dimension sampled (17 handlers incl. multi-word and digit-bearing names); trusted: Kani/CBMC/cadical, HSpec table",
   ref="§3 C01"),
 "C11": dict(
   text="CBMC decides IntoMsg::into_msg over EVERY CosmosMsg variant compiled in (feature sets default and staking+stargate+cosmwasm_2_0) with symbolic id / gas limit / reply trigger / payload: Err exactly for the custom-typed message, otherwise all fields equal (this harness found the missing Stargate arm, now fixed); IntoResponse::into_response with 0/1 sub-messages, 0..1 attribute, 0..1 event, optional (also present-but-empty) data, and two attributes + two events in order: every field preserved, and Err for a custom-typed message; the generated `: custom(query)` arms (exec, sudo, query) hand the caller's storage/api/querier/env/sender to the Empty-typed interface handler and return its outcome intact.",
   note="the generated exec/sudo arms for `: custom(msg)` as a whole (dispatch composed with into_response) exceed the budget (minimal instance > 700 s; symbolic shape > 30 GB) and are OUTSIDE: their pieces are decided separately; heavy CosmosMsg payloads compared at variant level; <= 1 sub-message through into_response (the 2-message instance does not finish: order of sub-messages not decided); stubs: Backtrace::capture, fmt::format",
   ref="§3 C11"),
 "C08": dict(
   text="CBMC decides, for the generated SubMsgMethods builders of all 9 handler names of corpus `replies` on all three receiver types (existing SubMsg with symbolic id/gas limit/reply_on/payload, WasmMsg::Execute, CosmosMsg::Bank): id = the generated constant, reply_on = exactly the outcomes that have a method in the oracle table, wrapped message and (for SubMsg) gas limit intact, raw payload byte for byte; and, per handler name, the round trip builder -> real dispatch_reply delivers the same 3 symbolic payload bytes to the method the table names for the (symbolic) outcome. Typed payloads: builder-side bytes for one/two one-digit values.",
   note="typed payload decode side (from_json) and hence the typed round trip are outside; payload <= 3 bytes; program dimension sampled by two corpus contracts; stubs: Backtrace::capture, fmt::format; trusted: Kani/CBMC/cadical, oracle table replies_h::TABLE",
   ref="§3 C08"),
 "C09": dict(
   text="CBMC decides the data-extraction cells of the raw modes and of the absent marker for the generated dispatch_reply: #[sv::data(raw)] hands 0/1/3 symbolic data bytes through unchanged and turns absent data into an error WITHOUT invoking the handler; #[sv::data(raw, opt)] hands them through or gives None; without a marker the first parameter is payload. The two INSTANTIATE modes are decided for envelopes of 2 symbolic bytes against a hand-written reference of the protobuf wire format: well-formed (tag byte with field 1 / wire type 2, length 0) => the decoded (empty) address reaches the handler; malformed => error WITHOUT invoking the handler (also for `instantiate, opt`); absent => error / None. For the two EXECUTE-envelope typed modes the data-absent and empty-envelope cells are decided (mandatory: error WITHOUT invoking the handler -- also when the parameter's type is itself an Option, the declared mode decides --; opt: None / error).",
   note="the JSON-inside-the-envelope cells of the two EXECUTE-envelope typed modes (well-formed / malformed inner JSON) are OUTSIDE the claim: every cell whose envelope carries inner bytes does not finish, even with from_json replaced (hw/c09t/README.md); raw data <= 3 bytes, instantiate envelopes of 2 bytes (3-byte instances exhaust CBMC's memory); stubs: Backtrace::capture, fmt::format; trusted: Kani/CBMC/cadical, oracle table",
   ref="§3 C09"),
 "C02": dict(
   text="CBMC decides, for the dispatch functions generated by the real macros for corpus contract `basic` (own messages of all five kinds and the three contract-level wrappers over a contract + 2 interfaces), over ALL argument values, env/info values, storage/api/querier tags and both handler outcomes: exactly one handler runs, it is the one the variant was generated from, every field reaches the same-named parameter, the context is the caller's, the write lands in the caller's storage, Ok responses come back untouched, errors come back converted into the declared type, query results are the JSON bytes of the returned value (a struct in `basic`; corpus `qret`: bool, and Binary from a contract and an interface query -- returned as a JSON string, not as its bytes). The tuple -> context conversions of sylvia::ctx that every dispatch arm builds its context with are also driven on their own: deps, env and -- for exec / instantiate -- sender and 0, 1 and 2 coins (symbolic amounts, zero included, order kept) arrive unchanged.",
   note="program dimension sampled (one contract, two interfaces, 19 handlers incl. same-signature siblings); argument types primitive; storage/api/querier are tag objects; stubs: Backtrace::capture, fmt::format (error text outside); for the Binary-returning queries Binary::to_base64 is a constant stub (base64 text outside); trusted: Kani/CBMC/cadical, oracle table in corpus/basic.rs",
   ref="§3 C02"),
 "C07": dict(
   text="CBMC decides, for the generated dispatch_reply of a corpus contract with 9 reply ids (success-only, error-only, two methods per name in both declaration orders, always, handlers=[a,b], raw and raw,opt data), one harness per declared id plus unknown ids (quick: one concrete; thorough: every other u64), over ALL gas values, Ok/Err, event/msg_response/data presence and bytes, payload byte and handler outcomes: which method runs with which context and arguments, the pass-through arms (events+data forwarded, error forwarded) and that unknown ids are errors running nothing. TYPED payloads (second corpus contract, sylvia::cw_std::from_json replaced by a serde-doc decoder): a success-only and an error-only name with one typed payload value -- covered outcome: the handler gets the decoded value, a malformed payload is an error without invoking it; UNCOVERED outcome: answered as if no reply had been requested, whatever the payload holds.",
   note="JSON text of typed payloads outside (from_json replaced by the facade decoder, crate c09t); typed data modes: see C09; strings 1 byte; lists 0..1; program dimension sampled by one handler table; stubs: Backtrace::capture, fmt::format; trusted: Kani/CBMC/cadical, oracle table in corpus/replies.rs",
   ref="§3 C07"),
 "C05": dict(
   text="For every concrete shape in the bound (2..3 parts, thorough 4; 0..2 names per part; names of 1..2 bytes over an 8-letter alphabet) CBMC decides, over ALL name contents, both directions of the overlap check as compiled from /repo: no shared name => returns, shared name => panics (cover 'returned normally' UNSATISFIABLE). The generated lists of a contract/interface corpus (interfaces declaring their methods in NON-alphabetical order) are checked sorted, duplicate-free and equal to the set of names the derived decoders accept (symbolic received name).",
   note="assumes the documented precondition (sorted, duplicate-free lists); shapes beyond the bound are outside; that the generated `const _` block really rejects a contract/interface collision is a negative compile gate (hw/c05neg, not solver-derived); corpus samples the program dimension; trusted: Kani/CBMC/cadical, rustc",
   ref="§3 C05"),
}

NA = {
 "C12": "both sides of the comparison run inside cw_multi_test::App (B-tree storage, dyn modules, anyhow, JSON bytes in/out); a single JSON parse or one-entry BTreeMap<Value,Value> already exceeds the CBMC budget (DESIGN P5/P6)",
 "C13": "statement about token streams produced at macro time by syn/quote/proc_macro2 code; Kani rejects proc-macro crates and a shadow lib build ICEs the Kani compiler at syn::parse (DESIGN P9); no run-time input to quantify over",
 "C16": "response_schemas()/schema_for! are input-free computations over schemars' BTreeMap/String structures; nothing is symbolic and the containers are out of CBMC's reach (DESIGN P6)",
 "C18": "diagnostics are emitted during expansion by syn-based code that cannot be encoded (DESIGN P9); acceptance/rejection of a program is not observable from compiled code",
 "C19": "hygiene is decided by name resolution at compile time; there is no value domain for a solver to range over",
}

def main():
    checks = []
    for pid in ids:
        if pid in CLAIMED:
            c = CLAIMED[pid]
            checks.append({
                "property_id": pid,
                "quick_cmd": f"./vcheck {pid} --tier quick",
                "thorough_cmd": f"./vcheck {pid} --tier thorough",
                "evidence_file": f"/verif/evidence/{pid}.json",
                "replay_cmd_template": "./vcheck replay {path}",
                "engine": "genkani",
                "level_claimed": {"category": "model_checking", "text": c["text"], "design_ref": c["ref"]},
                "level_note": c["note"],
                "technique": TECH,
            })
    na = []
    for pid in ids:
        if pid in CLAIMED:
            continue
        na.append({"property_id": pid, "reason": NA.get(pid, "check not built yet (planned, see DESIGN.md §3)")})
    m = {
        "version": 1,
        "setup_cmd": "./vcheck setup",
        "hooks": {"guard": "none", "enable": "no source hooks: harness crates under /verif/hw path-depend on /repo/sylvia, so every check re-expands the macros and recompiles the runtime from /repo's working tree",
                  "baseline_off_cmd": "cd /repo && cargo test --workspace --no-fail-fast --offline",
                  "source_commits": [], "add_only": True},
        "engines": [{"name": "genkani", "path": "/verif/vcheck", "serves_properties": sorted(CLAIMED),
                     "kind_free_text": "cargo-kani (CBMC/cadical) over per-property harness crates in /verif/hw whose corpus contracts are expanded by the real sylvia macros at build time"}],
        "checks": checks,
        "notes": "solver-based checking only; see DESIGN.md. Exit 2 of a check = inconclusive (never reported as pass).",
        "not_applicable": na,
    }
    json.dump(m, open(os.path.join(HERE, "MANIFEST.json"), "w"), indent=1)
    try:
        import jsonschema
        jsonschema.validate(m, json.load(open("/root/.vp/MANIFEST.schema.json")))
        print("MANIFEST.json valid;", len(checks), "checks,", len(na), "not applicable")
    except ImportError:
        print("written (jsonschema not available to validate)")

main()
