#!/usr/bin/env python3
"""Regenerates MANIFEST.json from the table below; validates against the schema when available."""
import json, os, sys
HERE = os.path.dirname(os.path.abspath(__file__))
ids = [json.loads(l)["id"] for l in open(os.path.join(HERE, "properties.jsonl"))]

TECH = "bounded model checking of the real code: Kani 0.68 -> CBMC 6.11 (cadical SAT); symbolic inputs, concrete sizes, unwinding assertions on; counterexamples replayed natively"

CLAIMED = {
 "C05": dict(
   text="For every concrete shape in the bound (2..3 parts, thorough 4; 0..2 names per part; names of 1..2 bytes over an 8-letter alphabet) CBMC decides, over ALL name contents, both directions of the overlap check as compiled from /repo: no shared name => returns, shared name => panics (cover 'returned normally' UNSATISFIABLE). The generated lists of a contract/interface corpus are checked sorted, duplicate-free and equal to the set of names the derived decoders accept (symbolic received name).",
   note="assumes the documented precondition (sorted, duplicate-free lists); shapes beyond the bound and the compile-time evaluation of the `const _` block are outside; corpus samples the program dimension; trusted: Kani/CBMC/cadical, rustc",
   ref="§3 C05"),
}

NA = {
 "C12": "both sides of the comparison run inside cw_multi_test::App (B-tree storage, dyn modules, anyhow, JSON bytes in/out); a single JSON parse or one-entry BTreeMap<Value,Value> already exceeds the CBMC budget (DESIGN P5/P6)",
 "C13": "statement about token streams produced at macro time by syn/quote/proc_macro2 code; Kani rejects proc-macro crates and a shadow lib build ICEs the Kani compiler at syn::parse (DESIGN P9); no run-time input to quantify over",
 "C16": "response_schemas()/schema_for! are input-free computations over schemars' BTreeMap/String structures; nothing is symbolic and the containers are out of CBMC's reach (DESIGN P6)",
 "C18": "diagnostics are emitted during expansion by syn-based code that cannot be encoded (DESIGN P9); acceptance/rejection of a program is not observable from compiled code",
 "C19": "hygiene is decided by name resolution at compile time; there is no value domain for a solver to range over",
}

def main():
    checks = []
    for pid in ids:
        if pid in CLAIMED:
            c = CLAIMED[pid]
            checks.append({
                "property_id": pid,
                "quick_cmd": f"./vcheck {pid} --tier quick",
                "thorough_cmd": f"./vcheck {pid} --tier thorough",
                "evidence_file": f"/verif/evidence/{pid}.json",
                "replay_cmd_template": "./vcheck replay {path}",
                "engine": "genkani",
                "level_claimed": {"category": "model_checking", "text": c["text"], "design_ref": c["ref"]},
                "level_note": c["note"],
                "technique": TECH,
            })
    na = []
    for pid in ids:
        if pid in CLAIMED:
            continue
        na.append({"property_id": pid, "reason": NA.get(pid, "check not built yet (planned, see DESIGN.md §3)")})
    m = {
        "version": 1,
        "setup_cmd": "./vcheck setup",
        "hooks": {"guard": "none", "enable": "no source hooks: harness crates under /verif/hw path-depend on /repo/sylvia, so every check re-expands the macros and recompiles the runtime from /repo's working tree",
                  "baseline_off_cmd": "cd /repo && cargo test --workspace --no-fail-fast --offline",
                  "source_commits": [], "add_only": True},
        "engines": [{"name": "genkani", "path": "/verif/vcheck", "serves_properties": sorted(CLAIMED),
                     "kind_free_text": "cargo-kani (CBMC/cadical) over per-property harness crates in /verif/hw whose corpus contracts are expanded by the real sylvia macros at build time"}],
        "checks": checks,
        "notes": "solver-based checking only; see DESIGN.md. Exit 2 of a check = inconclusive (never reported as pass).",
        "not_applicable": na,
    }
    json.dump(m, open(os.path.join(HERE, "MANIFEST.json"), "w"), indent=1)
    try:
        import jsonschema
        jsonschema.validate(m, json.load(open("/root/.vp/MANIFEST.schema.json")))
        print("MANIFEST.json valid;", len(checks), "checks,", len(na), "not applicable")
    except ImportError:
        print("written (jsonschema not available to validate)")

main()
