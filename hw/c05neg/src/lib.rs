//! This crate must be REJECTED by the compiler: interface `ifc` and contract `Cn` both expose the
//! exec message `same_name`, so the `const _` block the contract-level message emits must panic at
//! compile time with "Message overlaps between interface and contract impl!".
//! The C05 check builds it natively and reports a violation if it is accepted.  The query messages
//! (`only_a` / `only_b`) do not collide and must not be what breaks the build.
#![allow(dead_code)]

pub mod ifc {
    use sylvia::ctx::{ExecCtx, QueryCtx};
    use sylvia::cw_std::{Response, StdError};

    #[sylvia::interface]
    #[sv::custom(msg=sylvia::cw_std::Empty, query=sylvia::cw_std::Empty)]
    pub trait Ifc {
        type Error: From<StdError>;

        #[sv::msg(exec)]
        fn same_name(&self, ctx: ExecCtx) -> Result<Response, Self::Error>;

        #[sv::msg(exec)]
        fn zz_after(&self, ctx: ExecCtx) -> Result<Response, Self::Error>;

        #[sv::msg(query)]
        fn only_a(&self, ctx: QueryCtx) -> Result<u8, Self::Error>;
    }
}

pub mod cn {
    use sylvia::ctx::{ExecCtx, InstantiateCtx, QueryCtx};
    use sylvia::cw_std::{Response, StdError, StdResult};

    pub struct Cn;

    #[sylvia::contract]
    #[sv::messages(crate::ifc as Ifc)]
    impl Cn {
        pub const fn new() -> Self {
            Cn
        }

        #[sv::msg(instantiate)]
        pub fn instantiate(&self, _ctx: InstantiateCtx) -> StdResult<Response> {
            Ok(Response::new())
        }

        #[sv::msg(exec)]
        pub fn same_name(&self, _ctx: ExecCtx) -> StdResult<Response> {
            Ok(Response::new())
        }

        #[sv::msg(query)]
        pub fn only_b(&self, _ctx: QueryCtx) -> StdResult<u8> {
            Ok(0)
        }
    }

    impl super::ifc::Ifc for Cn {
        type Error = StdError;

        fn same_name(&self, _ctx: ExecCtx) -> StdResult<Response> {
            Ok(Response::new())
        }
        fn zz_after(&self, _ctx: ExecCtx) -> StdResult<Response> {
            Ok(Response::new())
        }
        fn only_a(&self, _ctx: QueryCtx) -> StdResult<u8> {
            Ok(0)
        }
    }
}
