//! C03 — the contract-level message accepts exactly the union of its parts and routes right.
//! Compiled against the façade package (see hw/facade): the generated `Contract*Msg::deserialize`
//! under test is the real macro output; `sylvia::serde_value` is the bounded container model.
#![allow(clippy::all)]
#![allow(dead_code, unused_imports, unused_mut, static_mut_refs, deprecated, non_snake_case)]

#[path = "../../corpus/basic.rs"]
pub mod basic;

#[path = "../../corpus/names.rs"]
pub mod names;

#[path = "../../corpus/small.rs"]
pub mod small;

#[cfg(kani)]
#[path = "../../corpus/basic_names_h.rs"]
pub mod basic_names_h;

pub mod glue;

#[cfg(kani)]
mod h {
    use crate::basic_names_h::{any_name, as_str};
    use crate::glue::{basic3, names1, small2};
    use crate::names::nm::sv as nm;
    use support::doc::{boolean, num, Msg, NameSc, Obj, Pair, TopNull, TopStr, EMPTY0};
    use support::stubs::{bt_disabled, fmt_stub, push_str_stub};

    fn no_overflow() -> bool {
        unsafe { !sylvia::serde_value::MODEL_OVERFLOW }
    }

    /// (b) glue: received name symbolic (concrete length), one concrete body layout per harness
    /// instance with symbolic values.
    macro_rules! glue_harness {
        ($name:ident, $len:literal, $f:path, |$s:ident, $v:ident| $doc:expr) => {
            #[kani::proof]
            #[kani::unwind(9)]
            #[kani::stub(std::backtrace::Backtrace::capture, bt_disabled)]
            #[kani::stub(alloc::fmt::format, fmt_stub)]
            #[kani::stub(alloc::string::String::push_str, push_str_stub)]
            fn $name() {
                let b = any_name::<$len>();
                let $s = as_str(&b);
                let $v: [u64; 2] = kani::any();
                let who = $f($doc);
                assert!(no_overflow(), "document stayed inside the container model's capacity");
                kani::cover!(who != 0, "a document the wrapper accepts");
                kani::cover!(who == 0, "a document the wrapper rejects");
            }
        };
    }
    // small corpus (2 parts): exec names of length 4: iafn (interface), pong, foo1 (contract)
    glue_harness!(s_exec_4_empty, 4, small2::exec, |s, v| Msg { name: s, body: EMPTY0 });
    glue_harness!(s_exec_4_x, 4, small2::exec, |s, v| Msg { name: s, body: Obj { keys: ["x"], vals: [num(v[0])] } });
    glue_harness!(s_exec_4_a, 4, small2::exec, |s, v| Msg { name: s, body: Obj { keys: ["a"], vals: [num(v[0])] } });
    glue_harness!(s_query_4, 4, small2::query, |s, v| Msg { name: s, body: EMPTY0 });
    // contract without interfaces (1 part), unusual names: x1 / k9 (2 bytes), lead / a1_b2 ...
    glue_harness!(n_exec_2_empty, 2, names1::exec, |s, v| Msg { name: s, body: EMPTY0 });
    glue_harness!(n_exec_3_empty, 3, names1::exec, |s, v| Msg { name: s, body: EMPTY0 });
    glue_harness!(n_exec_8_empty, 8, names1::exec, |s, v| Msg { name: s, body: EMPTY0 });
    glue_harness!(n_exec_4_empty, 4, names1::exec, |s, v| Msg { name: s, body: EMPTY0 });
    glue_harness!(n_exec_5_x, 5, names1::exec, |s, v| Msg { name: s, body: Obj { keys: ["x"], vals: [num(v[0])] } });
    glue_harness!(n_query_2_empty, 2, names1::query, |s, v| Msg { name: s, body: EMPTY0 });
    // basic corpus (3 parts)
    glue_harness!(g_exec_4_empty, 4, basic3::exec, |s, v| Msg { name: s, body: EMPTY0 });
    glue_harness!(g_exec_4_n, 4, basic3::exec, |s, v| Msg { name: s, body: Obj { keys: ["n"], vals: [num(v[0])] } });
    glue_harness!(g_exec_4_x, 4, basic3::exec, |s, v| Msg { name: s, body: Obj { keys: ["x"], vals: [num(v[0])] } });
    glue_harness!(g_exec_4_flag, 4, basic3::exec, |s, v| Msg { name: s, body: Obj { keys: ["flag"], vals: [boolean(v[0] & 1 == 1)] } });
    glue_harness!(g_exec_6_ab, 6, basic3::exec, |s, v| Msg { name: s, body: Obj { keys: ["a", "b"], vals: [num(v[0]), num(v[1])] } });
    glue_harness!(g_exec_7_ab, 7, basic3::exec, |s, v| Msg { name: s, body: Obj { keys: ["b", "a"], vals: [num(v[0]), num(v[1])] } });
    glue_harness!(g_exec_5_ab, 5, basic3::exec, |s, v| Msg { name: s, body: Obj { keys: ["a", "b"], vals: [num(v[0]), num(v[1])] } });
    glue_harness!(g_query_4_n, 4, basic3::query, |s, v| Msg { name: s, body: Obj { keys: ["n"], vals: [num(v[0])] } });
    glue_harness!(g_query_4_k, 4, basic3::query, |s, v| Msg { name: s, body: Obj { keys: ["k"], vals: [num(v[0])] } });
    glue_harness!(g_query_3_empty, 3, basic3::query, |s, v| Msg { name: s, body: EMPTY0 });
    glue_harness!(g_query_5_ab, 5, basic3::query, |s, v| Msg { name: s, body: Obj { keys: ["a", "b"], vals: [num(v[0]), num(v[1])] } });
    glue_harness!(g_query_6_empty, 6, basic3::query, |s, v| Msg { name: s, body: EMPTY0 });
    glue_harness!(g_sudo_4_n, 4, basic3::sudo, |s, v| Msg { name: s, body: Obj { keys: ["n"], vals: [num(v[0])] } });

    /// Top-level shapes that are not a one-entry object whose key is a supported name and whose value
    /// is an object: decoding error, no panic.
    macro_rules! top_harness {
        ($name:ident, $f:path, $known:literal, $other:literal) => {
            #[kani::proof]
            #[kani::unwind(9)]
            #[kani::stub(std::backtrace::Backtrace::capture, bt_disabled)]
            #[kani::stub(alloc::fmt::format, fmt_stub)]
            #[kani::stub(alloc::string::String::push_str, push_str_stub)]
            fn $name() {
                let x: u64 = kani::any();
                let sel: u8 = kani::any();
                kani::assume(sel < 6);
                let who = match sel {
                    0 => $f(TopStr($known)),
                    1 => $f(TopNull),
                    2 => $f(num(x)),
                    3 => $f(EMPTY0),
                    4 => $f(Pair { first: Msg { name: $known, body: EMPTY0 }, second: Msg { name: $other, body: EMPTY0 } }),
                    _ => $f(NameSc { name: $known, sc: num(x) }),
                };
                assert!(no_overflow());
                assert!(who == 0, "zero or several top-level keys, or not an object: decoding error");
                kani::cover!(sel == 4, "two top-level keys");
            }
        };
    }
    top_harness!(g_top_exec, basic3::exec, "ping", "ib_x");
    top_harness!(g_top_query, basic3::query, "get", "ia_q");
    top_harness!(g_top_sudo, basic3::sudo, "tick", "tock");

    /// Untagged transparency: the wrapper serialises to the same serde events as the part alone.
    #[kani::proof]
    #[kani::unwind(9)]
    fn g_ser_transparent() {
        use crate::basic::ct::sv::{ContractExecMsg, ContractQueryMsg, ContractSudoMsg, ExecMsg, QueryMsg, SudoMsg};
        use crate::basic::ifa::sv::{IfaExecMsg, IfaSudoMsg};
        use crate::basic::ifb::sv::IfbQueryMsg;
        use support::rec::{rec_eq, record};
        let a: u32 = kani::any();
        let b: u32 = kani::any();
        let x: u64 = kani::any();
        let sel: u8 = kani::any();
        kani::assume(sel < 6);
        let (w, p) = match sel {
            0 => (record(&ContractExecMsg::Ct(ExecMsg::FooBar { a, b })), record(&ExecMsg::FooBar { a, b })),
            1 => (record(&ContractExecMsg::Ct(ExecMsg::Foo1 { x })), record(&ExecMsg::Foo1 { x })),
            2 => (record(&ContractExecMsg::Ifa(IfaExecMsg::IaTwo { a, b })), record(&IfaExecMsg::IaTwo { a, b })),
            3 => (record(&ContractQueryMsg::Ifb(IfbQueryMsg::Tick { n: x })), record(&IfbQueryMsg::Tick { n: x })),
            4 => (record(&ContractQueryMsg::Ct(QueryMsg::Get {})), record(&QueryMsg::Get {})),
            _ => (record(&ContractSudoMsg::Ifa(IfaSudoMsg::Tick { n: x })), record(&IfaSudoMsg::Tick { n: x })),
        };
        match (&w, &p) {
            (Ok(w), Ok(p)) => assert!(rec_eq(w, p), "the wrapper encodes to the same JSON as the part alone"),
            _ => assert!(false, "generated messages serialise"),
        }
        kani::cover!(sel == 3);
    }

    // (a) table / wire agreement on the unusual names of corpus `names` (the usual ones are in C01).
    // No hand-written list here: the second clause of `names_harness!` needs one, so the macro is
    // given the generated table as oracle too and only the self-consistency clauses are decisive.
    macro_rules! self_consistent {
        ($name:ident, $ty:ty, $len:literal, $table:expr) => {
            #[kani::proof]
            #[kani::unwind(10)]
            fn $name() {
                use crate::basic_names_h::*;
                let b = any_name::<$len>();
                let s = as_str(&b);
                let table = $table;
                let acc = accepted::<$ty>(s);
                assert!(acc == in_list(s, &table), "the published name list is exactly the set of names the part's messages decode under");
                assert!(strictly_sorted(&table), "sorted and duplicate-free");
                kani::cover!(!acc);
            }
        };
    }
    self_consistent!(a_nm_exec_2, nm::ExecMsg, 2, nm::execute_messages());
    self_consistent!(a_nm_exec_3, nm::ExecMsg, 3, nm::execute_messages());
    self_consistent!(a_nm_exec_4, nm::ExecMsg, 4, nm::execute_messages());
    self_consistent!(a_nm_exec_5, nm::ExecMsg, 5, nm::execute_messages());
    self_consistent!(a_nm_exec_6, nm::ExecMsg, 6, nm::execute_messages());
    self_consistent!(a_nm_exec_7, nm::ExecMsg, 7, nm::execute_messages());
    self_consistent!(a_nm_exec_8, nm::ExecMsg, 8, nm::execute_messages());
    self_consistent!(a_nm_query_1, nm::QueryMsg, 1, nm::query_messages());
    self_consistent!(a_nm_query_2, nm::QueryMsg, 2, nm::query_messages());
    self_consistent!(a_nm_query_3, nm::QueryMsg, 3, nm::query_messages());

    /// Every published name of corpus `names` is accepted by its decoder (the converse direction for
    /// the concrete list entries, whatever their length).
    #[kani::proof]
    #[kani::unwind(10)]
    fn a_nm_lists_accepted() {
        use crate::basic_names_h::accepted;
        let e = nm::execute_messages();
        let mut i = 0;
        while i < e.len() {
            assert!(accepted::<nm::ExecMsg>(e[i]), "published exec name decodes");
            i += 1;
        }
        let q = nm::query_messages();
        let mut i = 0;
        while i < q.len() {
            assert!(accepted::<nm::QueryMsg>(q[i]), "published query name decodes");
            i += 1;
        }
        assert!(e.len() == 7 && q.len() == 2, "one published name per method");
        kani::cover!(true);
    }

    // @PLAYBACK h@
}

/// Has any document exceeded the container model's capacity so far?  (read by the native model
/// validation in `c03v`)
pub unsafe fn sylvia_model_overflow() -> bool {
    sylvia::serde_value::MODEL_OVERFLOW
}
