//! Differential oracle for the wrapper glue (typed: decoded values are compared with the derived
//! `PartialEq`, field by field; no records, which keeps the SAT instance small).
//!
//! The property, for one document `doc`:
//!   wrapper accepts  ⇔  exactly one part accepts;
//!   the wrapper holds that part's variant, and the payload equals the part's own decoding.

use support::doc::{decode, E};
use sylvia::serde::Deserializer;

/// 0 = nobody accepts and the wrapper rejects; 1.. = the part that accepted (and the wrapper agreed).
/// Any disagreement fails an assertion.
#[macro_export]
macro_rules! glue3 {
    ($name:ident, $wrap:path, $va:ident : $pa:ty, $vb:ident : $pb:ty, $vc:ident : $pc:ty) => {
        pub fn $name<'de, D: sylvia::serde::Deserializer<'de, Error = support::doc::E> + Copy>(doc: D) -> u8 {
            use $wrap as W;
            let w: Result<W, support::doc::E> = support::doc::decode(doc);
            let a: Result<$pa, support::doc::E> = support::doc::decode(doc);
            let b: Result<$pb, support::doc::E> = support::doc::decode(doc);
            let c: Result<$pc, support::doc::E> = support::doc::decode(doc);
            let out = match (&w, &a, &b, &c) {
                (Ok(W::$va(x)), Ok(p), Err(_), Err(_)) => {
                    assert!(x == p, "payload equals the part's own decoding");
                    1
                }
                (Ok(W::$vb(x)), Err(_), Ok(p), Err(_)) => {
                    assert!(x == p, "payload equals the part's own decoding");
                    2
                }
                (Ok(W::$vc(x)), Err(_), Err(_), Ok(p)) => {
                    assert!(x == p, "payload equals the part's own decoding");
                    3
                }
                (Err(_), Err(_), Err(_), Err(_)) => 0,
                (Err(_), _, _, _) => {
                    let n = a.is_ok() as u8 + b.is_ok() as u8 + c.is_ok() as u8;
                    assert!(n != 1, "a document exactly one part accepts must be accepted");
                    0
                }
                (Ok(_), _, _, _) => {
                    assert!(false, "the wrapper accepted a document that not exactly one part accepts, or chose another part");
                    0
                }
            };
            core::mem::forget((w, a, b, c));
            out
        }
    };
}

#[macro_export]
macro_rules! glue2 {
    ($name:ident, $wrap:path, $va:ident : $pa:ty, $vc:ident : $pc:ty) => {
        pub fn $name<'de, D: sylvia::serde::Deserializer<'de, Error = support::doc::E> + Copy>(doc: D) -> u8 {
            use $wrap as W;
            let w: Result<W, support::doc::E> = support::doc::decode(doc);
            let a: Result<$pa, support::doc::E> = support::doc::decode(doc);
            let c: Result<$pc, support::doc::E> = support::doc::decode(doc);
            let out = match (&w, &a, &c) {
                (Ok(W::$va(x)), Ok(p), Err(_)) => {
                    assert!(x == p, "payload equals the part's own decoding");
                    1
                }
                (Ok(W::$vc(x)), Err(_), Ok(p)) => {
                    assert!(x == p, "payload equals the part's own decoding");
                    2
                }
                (Err(_), Err(_), Err(_)) => 0,
                (Err(_), _, _) => {
                    let n = a.is_ok() as u8 + c.is_ok() as u8;
                    assert!(n != 1, "a document exactly one part accepts must be accepted");
                    0
                }
                (Ok(_), _, _) => {
                    assert!(false, "the wrapper accepted a document that not exactly one part accepts, or chose another part");
                    0
                }
            };
            core::mem::forget((w, a, c));
            out
        }
    };
}

/// wrapper of a contract WITHOUT interfaces (single part)
#[macro_export]
macro_rules! glue1 {
    ($name:ident, $wrap:path, $vc:ident : $pc:ty) => {
        pub fn $name<'de, D: sylvia::serde::Deserializer<'de, Error = support::doc::E> + Copy>(doc: D) -> u8 {
            use $wrap as W;
            let w: Result<W, support::doc::E> = support::doc::decode(doc);
            let c: Result<$pc, support::doc::E> = support::doc::decode(doc);
            let out = match (&w, &c) {
                (Ok(W::$vc(x)), Ok(p)) => {
                    assert!(x == p, "payload equals the part's own decoding");
                    1
                }
                (Err(_), Err(_)) => 0,
                (Err(_), Ok(_)) => {
                    assert!(false, "a document the only part accepts must be accepted");
                    0
                }
                (Ok(_), Err(_)) => {
                    assert!(false, "the wrapper accepted a document its only part rejects");
                    0
                }
            };
            core::mem::forget((w, c));
            out
        }
    };
}

pub mod names1 {
    use crate::names::nm::sv::{ContractExecMsg, ContractQueryMsg, ExecMsg, QueryMsg};
    glue1!(exec, ContractExecMsg, Nm: ExecMsg);
    glue1!(query, ContractQueryMsg, Nm: QueryMsg);
}

pub mod basic3 {
    use crate::basic::ct::sv::{ContractExecMsg, ContractQueryMsg, ContractSudoMsg, ExecMsg, QueryMsg, SudoMsg};
    use crate::basic::ifa::sv::{IfaExecMsg, IfaQueryMsg, IfaSudoMsg};
    use crate::basic::ifb::sv::{IfbExecMsg, IfbQueryMsg, IfbSudoMsg};
    glue3!(exec, ContractExecMsg, Ifa: IfaExecMsg, Ifb: IfbExecMsg, Ct: ExecMsg);
    glue3!(query, ContractQueryMsg, Ifa: IfaQueryMsg, Ifb: IfbQueryMsg, Ct: QueryMsg);
    glue3!(sudo, ContractSudoMsg, Ifa: IfaSudoMsg, Ifb: IfbSudoMsg, Ct: SudoMsg);
}

pub mod small2 {
    use crate::small::ifs::sv::{IfsExecMsg, IfsQueryMsg};
    use crate::small::sm::sv::{ContractExecMsg, ContractQueryMsg, ExecMsg, QueryMsg};
    glue2!(exec, ContractExecMsg, Ifs: IfsExecMsg, Sm: ExecMsg);
    glue2!(query, ContractQueryMsg, Ifs: IfsQueryMsg, Sm: QueryMsg);
}
