//! C07 — reply routing honours the declared handler and outcome.
#![allow(clippy::all)]
#![allow(dead_code, unused_imports, unused_mut, static_mut_refs, deprecated)]

#[path = "../../corpus/replies.rs"]
pub mod replies;

#[cfg(kani)]
#[path = "../../corpus/replies_h.rs"]
pub mod replies_h;

#[cfg(kani)]
mod h {
    use crate::replies::rp::{sv, Rp};
    use crate::replies_h::*;
    use support::call::{any_in, check_no_call};
    use support::stubs::{bt_disabled, fmt_stub};

    /// One harness per declared id (the id is then a constant for CBMC and the other arms are pruned);
    /// together with `r_unknown_id` they cover every u64.
    macro_rules! case {
        ($name:ident, $k:literal, $id:expr) => {
            #[kani::proof]
            #[kani::unwind(6)]
            #[kani::stub(std::backtrace::Backtrace::capture, bt_disabled)]
            #[kani::stub(alloc::fmt::format, fmt_stub)]
            fn $name() {
                // the table is keyed by position in KNOWN; make sure position and constant agree
                assert!(KNOWN[$k] == $id);
                reply_case::<1, 1>($id, TABLE[$k].0, TABLE[$k].1);
            }
        };
    }

    case!(r_on_succ, 0, sv::ON_SUCC_REPLY_ID);
    case!(r_on_err, 1, sv::ON_ERR_REPLY_ID);
    case!(r_both, 2, sv::BOTH_REPLY_ID);
    case!(r_rev, 3, sv::REV_REPLY_ID);
    case!(r_alw, 4, sv::ALW_REPLY_ID);
    case!(r_h_a, 5, sv::H_A_REPLY_ID);
    case!(r_h_b, 6, sv::H_B_REPLY_ID);
    case!(r_raw_data, 7, sv::RAW_DATA_REPLY_ID);
    case!(r_raw_opt, 8, sv::RAW_OPT_REPLY_ID);

    /// Any id that belongs to no handler name is an error and runs nothing (id symbolic over u64).
    #[kani::proof]
    #[kani::unwind(6)]
    #[kani::stub(std::backtrace::Backtrace::capture, bt_disabled)]
    #[kani::stub(alloc::fmt::format, fmt_stub)]
    fn r_unknown_id() {
        let id: u64 = kani::any();
        kani::assume(id != KNOWN[0] && id != KNOWN[1] && id != KNOWN[2] && id != KNOWN[3] && id != KNOWN[4]);
        kani::assume(id != KNOWN[5] && id != KNOWN[6] && id != KNOWN[7] && id != KNOWN[8]);
        let i = any_in();
        let r = any_rin::<1, 1>();
        let mut w = i.world();
        let res = sv::dispatch_reply(w.deps_mut(), i.env(), mk_reply(id, &r), Rp::new());
        check_no_call(&w);
        assert!(res.is_err(), "an id belonging to no handler is an error");
        kani::cover!(r.ok, "unknown id, successful sub-message");
        kani::cover!(!r.ok, "unknown id, failed sub-message");
        core::mem::forget(res);
    }

    /// Cheap variants: one *concrete* unknown id each (just above the declared ones, 2^32,
    /// u64::MAX), everything else about the reply symbolic.  The fully symbolic id is `r_unknown_id`.
    macro_rules! unknown_concrete {
        ($name:ident, $id:expr) => {
            #[kani::proof]
            #[kani::unwind(6)]
            #[kani::stub(std::backtrace::Backtrace::capture, bt_disabled)]
            #[kani::stub(alloc::fmt::format, fmt_stub)]
            fn $name() {
                const ID: u64 = $id;
                let i = any_in();
                let r = any_rin::<1, 1>();
                let mut w = i.world();
                let res = sv::dispatch_reply(w.deps_mut(), i.env(), mk_reply(ID, &r), Rp::new());
                check_no_call(&w);
                assert!(res.is_err(), "an id belonging to no handler is an error");
                kani::cover!(r.ok, "unknown id, successful sub-message");
                kani::cover!(!r.ok, "unknown id, failed sub-message");
                core::mem::forget(res);
            }
        };
    }
    unknown_concrete!(r_unknown_next, max_known() + 1);
    unknown_concrete!(r_unknown_2p32, 1 << 32);
    unknown_concrete!(r_unknown_max, u64::MAX);

    /// Distinct handler names have distinct ids (facts about the generated constants; also C08).
    #[kani::proof]
    fn r_ids_distinct() {
        let a: usize = kani::any();
        let b: usize = kani::any();
        kani::assume(a < 9 && b < 9 && a != b);
        assert!(KNOWN[a] != KNOWN[b]);
        kani::cover!(true);
    }

    // @PLAYBACK h@
}
