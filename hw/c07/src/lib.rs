//! C07 — reply routing honours the declared handler and outcome.
#![allow(clippy::all)]
#![allow(dead_code, unused_imports, unused_mut, static_mut_refs, deprecated)]

#[path = "../../corpus/replies.rs"]
pub mod replies;

#[cfg(kani)]
mod h {
    use crate::replies::rp::{sv, Rp};
    use crate::replies::RpErr;
    use support::call::{any_in, check_call, check_no_call, In};
    use support::echo;
    use support::env::one_char;
    use support::stubs::{bt_disabled, fmt_stub};
    use sylvia::cw_std::{Binary, Empty, Event, MsgResponse, Reply, Response, StdError, SubMsgResponse, SubMsgResult};

    /// What must happen on a successful sub-message.
    #[derive(Clone, Copy)]
    pub enum OnOk {
        /// success method without data parameter
        Plain(u32),
        /// success method with `#[sv::data(raw, opt)]`
        DataOpt(u32),
        /// success method with `#[sv::data(raw)]`
        DataRaw(u32),
        /// `always` method
        Always(u32),
        /// nobody covers success: events and data are passed through
        Pass,
    }
    #[derive(Clone, Copy)]
    pub enum OnErr {
        Err(u32),
        Always(u32),
        /// nobody covers failure: the error is returned
        Pass,
    }

    struct Rin {
        gas: u64,
        ok: bool,
        has_ev: bool,
        ev: [u8; 3],
        has_mr: bool,
        mr: [u8; 2],
        has_data: bool,
        d: u8,
        pb: u8,
        eb: u8,
    }

    fn any_rin() -> Rin {
        let r = Rin {
            gas: kani::any(),
            ok: kani::any(),
            has_ev: kani::any(),
            ev: kani::any(),
            has_mr: kani::any(),
            mr: kani::any(),
            has_data: kani::any(),
            d: kani::any(),
            pb: kani::any(),
            eb: kani::any(),
        };
        kani::assume(r.ev[0] < 128 && r.ev[1] < 128 && r.ev[2] < 128 && r.mr[0] < 128 && r.eb < 128);
        r
    }

    fn mk_reply(id: u64, r: &Rin) -> Reply {
        let result = if r.ok {
            let events = if r.has_ev {
                vec![Event::new(one_char(r.ev[0])).add_attribute(one_char(r.ev[1]), one_char(r.ev[2]))]
            } else {
                Vec::new()
            };
            let msg_responses = if r.has_mr {
                vec![MsgResponse {
                    type_url: one_char(r.mr[0]),
                    value: Binary::from(vec![r.mr[1]]),
                }]
            } else {
                Vec::new()
            };
            SubMsgResult::Ok(SubMsgResponse {
                events,
                data: if r.has_data { Some(Binary::from(vec![r.d])) } else { None },
                msg_responses,
            })
        } else {
            SubMsgResult::Err(one_char(r.eb))
        };
        Reply {
            id,
            payload: Binary::from(vec![r.pb]),
            gas_used: r.gas,
            result,
        }
    }

    /// Handler outcome reaches the caller untouched.
    fn check_handler_outcome(i: &In, res: &Result<Response<Empty>, RpErr>) {
        match res {
            Ok(resp) => {
                assert!(!i.ctl.fail);
                let (has, d0, len) = echo::resp_data(resp);
                assert!(has && len == 1 && d0 == i.ctl.data, "handler's response untouched");
                assert!(resp.messages.is_empty() && resp.attributes.is_empty() && resp.events.is_empty());
            }
            Err(RpErr::Mine(c)) => assert!(i.ctl.fail && *c == i.ctl.code, "handler's error"),
            Err(RpErr::Std(_)) => assert!(false, "no StdError expected when a handler ran"),
        }
    }

    pub fn reply_case(id: u64, onok: OnOk, onerr: OnErr) {
        let i = any_in();
        let r = any_rin();
        let mut w = i.world();
        let msg = mk_reply(id, &r);
        let res = sv::dispatch_reply(w.deps_mut(), i.env(), msg, Rp::new());
        let pay = 256 + r.pb as u64;
        let evs = (if r.has_ev { 16 } else { 0 }) + (if r.has_mr { 1 } else { 0 });
        let dat = if r.has_data { 256 + r.d as u64 } else { 0 };
        if r.ok {
            match onok {
                OnOk::Plain(h) => {
                    check_call(&i, &w, h, [r.gas, evs, pay, 0], false, true);
                    check_handler_outcome(&i, &res);
                    kani::cover!(true, "success -> plain success method");
                }
                OnOk::DataOpt(h) => {
                    let d = if r.has_data { 1000 + dat } else { 1 };
                    check_call(&i, &w, h, [r.gas, evs, pay, d], false, true);
                    check_handler_outcome(&i, &res);
                    kani::cover!(r.has_data, "success -> method with optional raw data (present)");
                    kani::cover!(!r.has_data, "success -> method with optional raw data (absent -> None)");
                }
                OnOk::DataRaw(h) => {
                    if r.has_data {
                        check_call(&i, &w, h, [r.gas, evs, pay, 1000 + dat], false, true);
                        check_handler_outcome(&i, &res);
                        kani::cover!(true, "success -> method with mandatory raw data (present)");
                    } else {
                        check_no_call(&w);
                        assert!(res.is_err(), "missing mandatory data is an error, handler not invoked");
                        kani::cover!(true, "success, data missing -> error");
                    }
                }
                OnOk::Always(h) => {
                    // always methods get the full result and an empty events / msg_responses context
                    check_call(&i, &w, h, [r.gas, 0, pay, 3000 + dat], false, true);
                    check_handler_outcome(&i, &res);
                    kani::cover!(true, "success -> always method");
                }
                OnOk::Pass => {
                    check_no_call(&w);
                    match &res {
                        Ok(resp) => {
                            assert!(resp.events.len() == if r.has_ev { 1 } else { 0 }, "events passed through");
                            if r.has_ev {
                                let e = &resp.events[0];
                                assert!(support::sym::str_eq(&e.ty, &one_char(r.ev[0])));
                                assert!(e.attributes.len() == 1);
                                assert!(support::sym::str_eq(&e.attributes[0].key, &one_char(r.ev[1])));
                                assert!(support::sym::str_eq(&e.attributes[0].value, &one_char(r.ev[2])));
                            }
                            let (has, d0, len) = echo::resp_data(resp);
                            assert!(has == r.has_data, "data presence passed through");
                            if r.has_data {
                                assert!(len == 1 && d0 == r.d, "data passed through");
                            }
                            assert!(resp.messages.is_empty() && resp.attributes.is_empty());
                        }
                        Err(_) => assert!(false, "uncovered success acts as if no reply had been requested"),
                    }
                    kani::cover!(r.has_ev && r.has_data, "success pass-through with event and data");
                }
            }
        } else {
            let err = 256 + r.eb as u64;
            match onerr {
                OnErr::Err(h) => {
                    check_call(&i, &w, h, [r.gas, 0, pay, 2000 + err], false, true);
                    check_handler_outcome(&i, &res);
                    kani::cover!(true, "failure -> error method");
                }
                OnErr::Always(h) => {
                    check_call(&i, &w, h, [r.gas, 0, pay, 4000 + err], false, true);
                    check_handler_outcome(&i, &res);
                    kani::cover!(true, "failure -> always method");
                }
                OnErr::Pass => {
                    check_no_call(&w);
                    match &res {
                        Err(RpErr::Std(StdError::GenericErr { msg, .. })) => {
                            assert!(support::sym::str_eq(msg, &one_char(r.eb)), "that error");
                        }
                        _ => assert!(false, "uncovered failure is answered with that error"),
                    }
                    kani::cover!(true, "failure pass-through");
                }
            }
        }
        core::mem::forget(res);
    }

    macro_rules! case {
        ($name:ident, $id:expr, $onok:expr, $onerr:expr) => {
            #[kani::proof]
            #[kani::unwind(6)]
            #[kani::stub(std::backtrace::Backtrace::capture, bt_disabled)]
            #[kani::stub(alloc::fmt::format, fmt_stub)]
            fn $name() {
                reply_case($id, $onok, $onerr);
            }
        };
    }

    case!(r_on_succ, sv::ON_SUCC_REPLY_ID, OnOk::Plain(400), OnErr::Pass);
    case!(r_on_err, sv::ON_ERR_REPLY_ID, OnOk::Pass, OnErr::Err(410));
    case!(r_both, sv::BOTH_REPLY_ID, OnOk::DataOpt(420), OnErr::Err(421));
    case!(r_rev, sv::REV_REPLY_ID, OnOk::Plain(431), OnErr::Err(430));
    case!(r_alw, sv::ALW_REPLY_ID, OnOk::Always(440), OnErr::Always(440));
    case!(r_h_a, sv::H_A_REPLY_ID, OnOk::Plain(450), OnErr::Pass);
    case!(r_h_b, sv::H_B_REPLY_ID, OnOk::Plain(450), OnErr::Pass);
    case!(r_raw_data, sv::RAW_DATA_REPLY_ID, OnOk::DataRaw(460), OnErr::Pass);
    case!(r_raw_opt, sv::RAW_OPT_REPLY_ID, OnOk::DataOpt(470), OnErr::Pass);

    /// Any id that belongs to no handler name is an error and runs nothing.
    #[kani::proof]
    #[kani::unwind(6)]
    #[kani::stub(std::backtrace::Backtrace::capture, bt_disabled)]
    #[kani::stub(alloc::fmt::format, fmt_stub)]
    fn r_unknown_id() {
        let id: u64 = kani::any();
        const KNOWN: [u64; 9] = [
            sv::ON_SUCC_REPLY_ID, sv::ON_ERR_REPLY_ID, sv::BOTH_REPLY_ID, sv::REV_REPLY_ID, sv::ALW_REPLY_ID,
            sv::H_A_REPLY_ID, sv::H_B_REPLY_ID, sv::RAW_DATA_REPLY_ID, sv::RAW_OPT_REPLY_ID,
        ];
        kani::assume(id != KNOWN[0] && id != KNOWN[1] && id != KNOWN[2] && id != KNOWN[3] && id != KNOWN[4]);
        kani::assume(id != KNOWN[5] && id != KNOWN[6] && id != KNOWN[7] && id != KNOWN[8]);
        let i = any_in();
        let r = any_rin();
        let mut w = i.world();
        let res = sv::dispatch_reply(w.deps_mut(), i.env(), mk_reply(id, &r), Rp::new());
        check_no_call(&w);
        assert!(res.is_err(), "an id belonging to no handler is an error");
        kani::cover!(r.ok, "unknown id, successful sub-message");
        kani::cover!(!r.ok, "unknown id, failed sub-message");
        core::mem::forget(res);
    }

    const KNOWN: [u64; 9] = [
        sv::ON_SUCC_REPLY_ID, sv::ON_ERR_REPLY_ID, sv::BOTH_REPLY_ID, sv::REV_REPLY_ID, sv::ALW_REPLY_ID,
        sv::H_A_REPLY_ID, sv::H_B_REPLY_ID, sv::RAW_DATA_REPLY_ID, sv::RAW_OPT_REPLY_ID,
    ];
    const fn max_known() -> u64 {
        let mut m = 0;
        let mut k = 0;
        while k < 9 {
            if KNOWN[k] > m {
                m = KNOWN[k];
            }
            k += 1;
        }
        m
    }

    /// Cheap variants: one *concrete* unknown id each (just above the declared ones, 2^32,
    /// u64::MAX), everything else about the reply symbolic.  The fully symbolic id is `r_unknown_id`.
    macro_rules! unknown_concrete {
        ($name:ident, $id:expr) => {
            #[kani::proof]
            #[kani::unwind(6)]
            #[kani::stub(std::backtrace::Backtrace::capture, bt_disabled)]
            #[kani::stub(alloc::fmt::format, fmt_stub)]
            fn $name() {
                const ID: u64 = $id;
                let i = any_in();
                let r = any_rin();
                let mut w = i.world();
                let res = sv::dispatch_reply(w.deps_mut(), i.env(), mk_reply(ID, &r), Rp::new());
                check_no_call(&w);
                assert!(res.is_err(), "an id belonging to no handler is an error");
                kani::cover!(r.ok, "unknown id, successful sub-message");
                kani::cover!(!r.ok, "unknown id, failed sub-message");
                core::mem::forget(res);
            }
        };
    }
    unknown_concrete!(r_unknown_next, max_known() + 1);
    unknown_concrete!(r_unknown_2p32, 1 << 32);
    unknown_concrete!(r_unknown_max, u64::MAX);

    /// Distinct handler names have distinct ids (concrete facts about the generated constants; C08).
    #[kani::proof]
    fn r_ids_distinct() {
        const KNOWN: [u64; 9] = [
            sv::ON_SUCC_REPLY_ID, sv::ON_ERR_REPLY_ID, sv::BOTH_REPLY_ID, sv::REV_REPLY_ID, sv::ALW_REPLY_ID,
            sv::H_A_REPLY_ID, sv::H_B_REPLY_ID, sv::RAW_DATA_REPLY_ID, sv::RAW_OPT_REPLY_ID,
        ];
        let a: usize = kani::any();
        let b: usize = kani::any();
        kani::assume(a < 9 && b < 9 && a != b);
        assert!(KNOWN[a] != KNOWN[b]);
        kani::cover!(true);
    }

    // @PLAYBACK h@
}
