//! C20 — a stored remote handle has a stable, type-independent encoding.
#![allow(clippy::all)]
#![allow(dead_code, unused_imports, unused_mut, static_mut_refs, deprecated)]

#[path = "../../corpus/basic.rs"]
pub mod basic;

#[path = "../../corpus/replies.rs"]
pub mod replies;

#[cfg(kani)]
mod h {
    use crate::basic::ct::Ct;
    use crate::basic::ifa::Ifa;
    use crate::basic::ifb::Ifb;
    use crate::basic::CtErr;
    use crate::replies::rp::Rp;
    use support::doc::{decode, num, Obj, StrObj, E, EMPTY0};
    use support::rec::{record, Rec, K_END, K_FIELD, K_STR, K_STRUCT};
    use support::sym::str_eq;
    use sylvia::cw_std::Addr;
    use sylvia::schemars::JsonSchema;
    use sylvia::types::Remote;

    fn any_addr<const L: usize>() -> [u8; L] {
        let b: [u8; L] = kani::any();
        let mut i = 0;
        while i < L {
            kani::assume(b[i] < 128);
            i += 1;
        }
        b
    }
    fn as_str<const L: usize>(b: &[u8; L]) -> &str {
        unsafe { core::str::from_utf8_unchecked(b) }
    }

    /// events of `{"addr": "<s>"}`: Struct(1) Field(addr) Str(s) End
    fn is_addr_object<const L: usize>(r: &Rec, b: &[u8; L]) -> bool {
        if r.overflow || r.n != 4 {
            return false;
        }
        let ok_head = r.ev[0].k == K_STRUCT && r.ev[0].num == 1;
        let ok_field = r.ev[1].k == K_FIELD && str_eq(r.ev[1].s, "addr");
        let v = &r.ev[2];
        let mut ok_val = v.k == K_STR && v.sl == L;
        let mut i = 0;
        while i < L && i < 4 {
            ok_val = ok_val && v.sb[i] == b[i];
            i += 1;
        }
        ok_head && ok_field && ok_val && r.ev[3].k == K_END
    }

    /// Encoding: a JSON object with the single member `addr`, whatever the type parameter and
    /// whether the handle owns or borrows the address.
    macro_rules! enc_harness {
        ($name:ident, $len:literal) => {
            #[kani::proof]
            #[kani::unwind(7)]
            fn $name() {
                let b = any_addr::<$len>();
                let addr = Addr::unchecked(as_str(&b));
                let sel: u8 = kani::any();
                kani::assume(sel < 6);
                let r = match sel {
                    0 => record(&Remote::<Ct>::new(addr.clone())),
                    1 => record(&Remote::<Ct>::borrowed(&addr)),
                    2 => record(&Remote::<Rp>::new(addr.clone())),
                    3 => record(&Remote::<dyn Ifa<Error = CtErr>>::new(addr.clone())),
                    4 => record(&Remote::<dyn Ifb<Error = CtErr>>::borrowed(&addr)),
                    _ => record(&Remote::<()>::new(addr.clone())),
                };
                match &r {
                    Ok(rec) => assert!(is_addr_object(rec, &b), "encodes as {{\"addr\": <address string>}} for every type parameter, owned or borrowed"),
                    Err(_) => assert!(false, "a handle serialises"),
                }
                kani::cover!(sel == 1, "borrowed handle");
                kani::cover!(sel == 3, "dyn Interface handle");
                core::mem::forget(addr);
            }
        };
    }
    /// The same with a CONCRETE mixed-case address, all six parameterisations in sequence.  It adds no
    /// input coverage on a correct tree; it exists because an implementation that transforms the address
    /// with Unicode-aware string code does not finish under CBMC for symbolic bytes (the symbolic
    /// harnesses then only become inconclusive), while a concrete string is constant-folded.
    #[kani::proof]
    #[kani::unwind(7)]
    fn enc_concrete_mixed_case() {
        let b: [u8; 4] = *b"aB_Z";
        let addr = Addr::unchecked(as_str(&b));
        macro_rules! one {
            ($e:expr) => {
                match &record(&$e) {
                    Ok(rec) => assert!(is_addr_object(rec, &b), "encodes as {{\"addr\": <address string>}} unchanged (case preserved)"),
                    Err(_) => assert!(false, "a handle serialises"),
                }
            };
        }
        one!(Remote::<Ct>::new(addr.clone()));
        one!(Remote::<Ct>::borrowed(&addr));
        one!(Remote::<Rp>::new(addr.clone()));
        one!(Remote::<dyn Ifa<Error = CtErr>>::new(addr.clone()));
        one!(Remote::<dyn Ifb<Error = CtErr>>::borrowed(&addr));
        one!(Remote::<()>::new(addr.clone()));
        let owned = Remote::<Ct>::new(addr.clone());
        assert!(str_eq(owned.as_ref().as_str(), "aB_Z"), "the handle reports the address it was given");
        kani::cover!(true, "reached");
        core::mem::forget((owned, addr));
    }

    enc_harness!(enc_0, 0);
    enc_harness!(enc_1, 1);
    enc_harness!(enc_3, 3);
    enc_harness!(enc_4, 4);

    /// Decoding `{"addr": s}` gives a handle to the same address (extra members ignored); a document
    /// without `addr`, or with a non-string `addr`, is an error.
    macro_rules! dec_harness {
        ($name:ident, $len:literal) => {
            #[kani::proof]
            #[kani::unwind(7)]
            fn $name() {
                let b = any_addr::<$len>();
                let s = as_str(&b);
                let sel: u8 = kani::any();
                kani::assume(sel < 6);
                let (want_ok, r): (bool, Result<Remote<'static, Ct>, E>) = match sel {
                    0 => (true, decode(StrObj { keys: ["addr"], vals: [s] })),
                    1 => (true, decode(StrObj { keys: ["addr", "zz"], vals: [s, s] })),
                    2 => (false, decode(StrObj { keys: ["adr"], vals: [s] })),
                    3 => (false, decode(EMPTY0)),
                    4 => (false, decode(Obj { keys: ["addr"], vals: [num(5)] })),
                    _ => (false, decode(StrObj { keys: ["addr", "addr"], vals: [s, s] })),
                };
                match &r {
                    Ok(h) => {
                        assert!(want_ok, "missing / duplicated / non-string addr must be rejected");
                        let a: &Addr = h.as_ref();
                        assert!(str_eq(a.as_str(), s), "decoding gives back a handle to the same address");
                    }
                    Err(_) => assert!(!want_ok, "{{\"addr\": s}} must decode"),
                }
                kani::cover!(sel == 1 && r.is_ok(), "extra member ignored");
                kani::cover!(sel == 5, "duplicate addr");
                core::mem::forget(r);
            }
        };
    }
    dec_harness!(dec_0, 0);
    dec_harness!(dec_2, 2);
    dec_harness!(dec_4, 4);

    /// Same for a `dyn Interface` parameter, and round trip encode -> decode.
    #[kani::proof]
    #[kani::unwind(7)]
    fn dec_dyn_3() {
        let b = any_addr::<3>();
        let s = as_str(&b);
        let r: Result<Remote<'static, dyn Ifa<Error = CtErr>>, E> = decode(StrObj { keys: ["addr"], vals: [s] });
        match &r {
            Ok(h) => {
                let a: &Addr = h.as_ref();
                assert!(str_eq(a.as_str(), s));
                match record(h) {
                    Ok(rec) => assert!(is_addr_object(&rec, &b), "round trip"),
                    Err(_) => assert!(false),
                }
            }
            Err(_) => assert!(false, "{{\"addr\": s}} must decode"),
        }
        kani::cover!(true);
        core::mem::forget(r);
    }

    /// The schema name does not depend on the type parameter.
    // unwind 160: an implementation that derives the name from `type_name::<Self>()` walks a string of
    // up to ~150 bytes; the bound must cover it so that a wrong name is REPORTED, not cut off
    #[kani::proof]
    #[kani::unwind(160)]
    fn schema_name_same() {
        let a = <Remote<'static, Ct> as JsonSchema>::schema_name();
        let b = <Remote<'static, dyn Ifa<Error = CtErr>> as JsonSchema>::schema_name();
        let c = <Remote<'static, Rp> as JsonSchema>::schema_name();
        assert!(str_eq(&a, &b) && str_eq(&b, &c) && str_eq(&a, "Remote"));
        kani::cover!(true);
        core::mem::forget((a, b, c));
    }

    // @PLAYBACK h@
}

/// Input-free fact, evaluated natively by the driver (`native_facts` in harnesses.json): the schema
/// name of a handle is `Remote` whatever the type parameter (plain contract, contract of another
/// corpus item, `dyn Interface<Error = ..>`, unit).
#[cfg(test)]
mod native {
    use crate::basic::ct::Ct;
    use crate::basic::ifa::Ifa;
    use crate::basic::CtErr;
    use crate::replies::rp::Rp;
    use sylvia::schemars::JsonSchema;
    use sylvia::types::Remote;

    #[test]
    fn schema_name_native() {
        let names = [
            <Remote<'static, Ct> as JsonSchema>::schema_name(),
            <Remote<'static, Rp> as JsonSchema>::schema_name(),
            <Remote<'static, dyn Ifa<Error = CtErr>> as JsonSchema>::schema_name(),
            <Remote<'static, Option<Vec<Ct>>> as JsonSchema>::schema_name(),
            <Remote<'static, ()> as JsonSchema>::schema_name(),
        ];
        for n in &names {
            assert_eq!(n, "Remote", "schema name must not depend on the type parameter");
        }
    }
}
