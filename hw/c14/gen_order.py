#!/usr/bin/env python3
"""Generates corpus/order.rs: the SAME program in several declaration orders (C14).

Permuted: handler methods inside the contract impl, methods inside the interface traits, the
#[sv::messages] attributes, the #[sv::override_entry_point] attributes.  `fwd` is the written order,
`rev` the reverse, `rot` a rotation by 2."""
import os
HERE = os.path.dirname(os.path.abspath(__file__))
HW = os.path.dirname(HERE)

ct_methods = [
'''        #[sv::msg(instantiate)]
        pub fn instantiate(&self, mut ctx: InstantiateCtx, a: u32, b: u32) -> Result<Response, OrdErr> {
            rec_mut(1, [a as u64, b as u64, 0, 0], &mut ctx.deps, &ctx.env, Some(&ctx.info));
            outcome()
        }
''',
'''        #[sv::msg(exec)]
        pub fn e1(&self, mut ctx: ExecCtx, a: u32, b: u32) -> Result<Response, OrdErr> {
            rec_mut(2, [a as u64, b as u64, 0, 0], &mut ctx.deps, &ctx.env, Some(&ctx.info));
            outcome()
        }
''',
'''        #[sv::msg(exec)]
        pub fn e2(&self, mut ctx: ExecCtx, a: u32, b: u32) -> Result<Response, OrdErr> {
            rec_mut(3, [a as u64, b as u64, 0, 0], &mut ctx.deps, &ctx.env, Some(&ctx.info));
            outcome()
        }
''',
'''        #[sv::msg(reply, handlers=[pl], reply_on=success)]
        pub fn pl_ok(&self, mut ctx: ReplyCtx, #[sv::payload(raw)] p: Binary) -> Result<Response, OrdErr> {
            rec_mut(13, [ctx.gas_used, p.len() as u64, 0, 0], &mut ctx.deps, &ctx.env, None);
            outcome()
        }
''',
'''        #[sv::msg(query)]
        pub fn g1(&self, ctx: QueryCtx) -> Result<Digit, OrdErr> {
            rec_ro(4, [0; 4], &ctx.deps, &ctx.env);
            q_outcome(Digit { v: ctl().digit })
        }
''',
'''        #[sv::msg(exec)]
        pub fn e3(&self, mut ctx: ExecCtx, x: u64) -> Result<Response, OrdErr> {
            rec_mut(5, [x, 0, 0, 0], &mut ctx.deps, &ctx.env, Some(&ctx.info));
            outcome()
        }
''',
'''        #[sv::msg(sudo)]
        pub fn s1(&self, mut ctx: SudoCtx, n: u64) -> Result<Response, OrdErr> {
            rec_mut(6, [n, 0, 0, 0], &mut ctx.deps, &ctx.env, None);
            outcome()
        }
''',
'''        #[sv::msg(reply, handlers=[both], reply_on=success)]
        pub fn both_ok(&self, mut ctx: ReplyCtx, #[sv::data(raw, opt)] data: Option<Binary>, #[sv::payload(raw)] p: Binary) -> Result<Response, OrdErr> {
            let d = match &data {
                Some(b) => 100 + b.len() as u64,
                None => 1,
            };
            rec_mut(7, [ctx.gas_used, p.len() as u64, d, 0], &mut ctx.deps, &ctx.env, None);
            outcome()
        }
''',
'''        #[sv::msg(query)]
        pub fn g2(&self, ctx: QueryCtx, a: u32, b: u32) -> Result<Digit, OrdErr> {
            rec_ro(8, [a as u64, b as u64, 0, 0], &ctx.deps, &ctx.env);
            q_outcome(Digit { v: ctl().digit })
        }
''',
'''        #[sv::msg(sudo)]
        pub fn s2(&self, mut ctx: SudoCtx, n: u64) -> Result<Response, OrdErr> {
            rec_mut(9, [n, 0, 0, 0], &mut ctx.deps, &ctx.env, None);
            outcome()
        }
''',
'''        #[sv::msg(reply, handlers=[both], reply_on=error)]
        pub fn both_err(&self, mut ctx: ReplyCtx, error: String, #[sv::payload(raw)] p: Binary) -> Result<Response, OrdErr> {
            rec_mut(10, [ctx.gas_used, p.len() as u64, 200 + error.len() as u64, 0], &mut ctx.deps, &ctx.env, None);
            outcome()
        }
''',
'''        #[sv::msg(migrate)]
        pub fn migrate(&self, mut ctx: MigrateCtx, a: u32, b: u32) -> Result<Response, OrdErr> {
            rec_mut(11, [a as u64, b as u64, 0, 0], &mut ctx.deps, &ctx.env, None);
            outcome()
        }
''',
'''        #[sv::msg(reply, handlers=[pl], reply_on=error)]
        pub fn pl_err(&self, mut ctx: ReplyCtx, error: String, #[sv::payload(raw)] p: Binary) -> Result<Response, OrdErr> {
            rec_mut(14, [ctx.gas_used, p.len() as u64, 200 + error.len() as u64, 0], &mut ctx.deps, &ctx.env, None);
            outcome()
        }
''',
'''        #[sv::msg(reply, reply_on=success)]
        pub fn solo(&self, mut ctx: ReplyCtx, #[sv::payload(raw)] p: Binary) -> Result<Response, OrdErr> {
            rec_mut(12, [ctx.gas_used, p.len() as u64, 0, 0], &mut ctx.deps, &ctx.env, None);
            outcome()
        }
''',
]
ifo_sigs = [
    ("x1", "        #[sv::msg(exec)]\n        fn x1(&self, ctx: ExecCtx, a: u32, b: u32) -> Result<Response, Self::Error>;\n",
     "        fn x1(&self, mut ctx: ExecCtx, a: u32, b: u32) -> Result<Response, OrdErr> {\n            rec_mut(21, [a as u64, b as u64, 0, 0], &mut ctx.deps, &ctx.env, Some(&ctx.info));\n            outcome()\n        }\n"),
    ("q1", "        #[sv::msg(query)]\n        fn q1(&self, ctx: QueryCtx) -> Result<Digit, Self::Error>;\n",
     "        fn q1(&self, ctx: QueryCtx) -> Result<Digit, OrdErr> {\n            rec_ro(22, [0; 4], &ctx.deps, &ctx.env);\n            q_outcome(Digit { v: ctl().digit })\n        }\n"),
    ("x2", "        #[sv::msg(exec)]\n        fn x2(&self, ctx: ExecCtx, a: u32, b: u32) -> Result<Response, Self::Error>;\n",
     "        fn x2(&self, mut ctx: ExecCtx, a: u32, b: u32) -> Result<Response, OrdErr> {\n            rec_mut(23, [a as u64, b as u64, 0, 0], &mut ctx.deps, &ctx.env, Some(&ctx.info));\n            outcome()\n        }\n"),
    ("z1", "        #[sv::msg(sudo)]\n        fn z1(&self, ctx: SudoCtx, n: u64) -> Result<Response, Self::Error>;\n",
     "        fn z1(&self, mut ctx: SudoCtx, n: u64) -> Result<Response, OrdErr> {\n            rec_mut(24, [n, 0, 0, 0], &mut ctx.deps, &ctx.env, None);\n            outcome()\n        }\n"),
]
messages = ["    #[sv::messages(crate::order::{m}::ifo as Ifo)]\n", "    #[sv::messages(crate::order::{m}::ifp as Ifp)]\n"]
overrides = ["    #[sv::override_entry_point(sudo=crate::order::custom::sudo(crate::order::custom::Msg))]\n",
             "    #[sv::override_entry_point(migrate=crate::order::custom::migrate(crate::order::custom::Msg))]\n"]

def perm(xs, how):
    if how == "fwd":
        return list(xs)
    if how == "rev":
        return list(reversed(xs))
    k = 2 % max(len(xs), 1)
    return list(xs[k:]) + list(xs[:k])

HEAD = '''// Corpus item `order`: the SAME program in several declaration orders (GENERATED by hw/c14/gen_order.py).
// fwd = written order, rev = everything reversed, rot = rotated by two.  Echo ids are the same in all
// twins, so "same input => same handler, same arguments, same outcome" is directly comparable:
//   1 instantiate(a,b)  2 e1(a,b)  3 e2(a,b)  5 e3(x)  4 g1()  8 g2(a,b)  6 s1(n)  9 s2(n)  11 migrate(a,b)
//   7 both_ok (reply `both`, success, data raw+opt)  10 both_err (reply `both`, error)  12 solo (success)
//   13 pl_ok (reply `pl`, success, NO data parameter, raw payload)  14 pl_err (reply `pl`, error): in `rev` the error
//      method comes first
//   ifo: 21 x1(a,b)  23 x2(a,b)  22 q1()  24 z1(n)        ifp: 31 p1(n)
// `ovr_*`: a second contract whose two #[sv::override_entry_point] attributes are permuted.

use support::echo::MyErr;
use sylvia::cw_std::StdError;

#[derive(sylvia::serde::Serialize, sylvia::serde::Deserialize, Clone, Debug, PartialEq, sylvia::schemars::JsonSchema)]
#[serde(crate = "sylvia::serde")]
#[schemars(crate = "sylvia::schemars")]
pub struct Digit {
    pub v: u8,
}

#[derive(Debug)]
pub enum OrdErr {
    Std(StdError),
    Mine(u8),
}
impl From<StdError> for OrdErr {
    fn from(e: StdError) -> Self {
        OrdErr::Std(e)
    }
}
impl From<MyErr> for OrdErr {
    fn from(e: MyErr) -> Self {
        OrdErr::Mine(e.0)
    }
}

pub mod custom {
    use sylvia::cw_std::{DepsMut, Env, Response, StdResult};

    #[derive(sylvia::serde::Serialize, sylvia::serde::Deserialize, Clone, Debug, PartialEq, sylvia::schemars::JsonSchema)]
    #[serde(crate = "sylvia::serde")]
    #[schemars(crate = "sylvia::schemars")]
    pub struct Msg {}

    pub fn sudo(_deps: DepsMut, _env: Env, _msg: Msg) -> StdResult<Response> {
        Ok(Response::new())
    }
    pub fn migrate(_deps: DepsMut, _env: Env, _msg: Msg) -> StdResult<Response> {
        Ok(Response::new())
    }
}
'''
out = [HEAD]
for how in ("fwd", "rev", "rot"):
    sigs = perm(ifo_sigs, how)
    out.append(f'''
pub mod {how} {{
    pub mod ifo {{
        use crate::order::Digit;
        use sylvia::ctx::{{ExecCtx, QueryCtx, SudoCtx}};
        use sylvia::cw_std::{{Response, StdError}};

        #[sylvia::interface]
        #[sv::custom(msg=sylvia::cw_std::Empty, query=sylvia::cw_std::Empty)]
        pub trait Ifo {{
            type Error: From<StdError>;

{"".join("    " + l for s in sigs for l in s[1].splitlines(True))}        }}
    }}

    pub mod ifp {{
        use sylvia::ctx::ExecCtx;
        use sylvia::cw_std::{{Response, StdError}};

        #[sylvia::interface]
        #[sv::custom(msg=sylvia::cw_std::Empty, query=sylvia::cw_std::Empty)]
        pub trait Ifp {{
            type Error: From<StdError>;

            #[sv::msg(exec)]
            fn p1(&self, ctx: ExecCtx, n: u64) -> Result<Response, Self::Error>;
        }}
    }}

    use crate::order::{{Digit, OrdErr}};
    use support::echo::{{ctl, outcome, q_outcome, rec_mut, rec_ro}};
    use sylvia::ctx::{{ExecCtx, InstantiateCtx, MigrateCtx, QueryCtx, ReplyCtx, SudoCtx}};
    use sylvia::cw_std::{{Binary, Response}};

    pub struct Oc;

    #[sylvia::entry_points]
    #[sylvia::contract]
    #[sv::error(OrdErr)]
    #[sv::features(replies)]
{"".join(m.format(m=how) for m in perm(messages, how))}    impl Oc {{
        pub const fn new() -> Self {{
            Oc
        }}

{chr(10).join(perm(ct_methods, how))}    }}

    impl ifo::Ifo for Oc {{
        type Error = OrdErr;

{"".join(s[2] for s in sigs)}    }}

    impl ifp::Ifp for Oc {{
        type Error = OrdErr;

        fn p1(&self, mut ctx: ExecCtx, n: u64) -> Result<Response, OrdErr> {{
            rec_mut(31, [n, 0, 0, 0], &mut ctx.deps, &ctx.env, Some(&ctx.info));
            outcome()
        }}
    }}

    /// second contract: two override attributes in this twin's order
    pub mod ovr {{
        use crate::order::OrdErr;
        use support::echo::{{outcome, rec_mut}};
        use sylvia::ctx::{{ExecCtx, InstantiateCtx, MigrateCtx, SudoCtx}};
        use sylvia::cw_std::Response;

        pub struct Ov;

        #[sylvia::entry_points]
        #[sylvia::contract]
        #[sv::error(OrdErr)]
{"".join(perm(overrides, how))}        impl Ov {{
            pub const fn new() -> Self {{
                Ov
            }}

            #[sv::msg(instantiate)]
            pub fn instantiate(&self, mut ctx: InstantiateCtx) -> Result<Response, OrdErr> {{
                rec_mut(41, [0; 4], &mut ctx.deps, &ctx.env, Some(&ctx.info));
                outcome()
            }}

            #[sv::msg(exec)]
            pub fn oe(&self, mut ctx: ExecCtx, n: u64) -> Result<Response, OrdErr> {{
                rec_mut(42, [n, 0, 0, 0], &mut ctx.deps, &ctx.env, Some(&ctx.info));
                outcome()
            }}

            #[sv::msg(sudo)]
            pub fn os(&self, mut ctx: SudoCtx, n: u64) -> Result<Response, OrdErr> {{
                rec_mut(43, [n, 0, 0, 0], &mut ctx.deps, &ctx.env, None);
                outcome()
            }}

            #[sv::msg(migrate)]
            pub fn om(&self, mut ctx: MigrateCtx) -> Result<Response, OrdErr> {{
                rec_mut(44, [0; 4], &mut ctx.deps, &ctx.env, None);
                outcome()
            }}
        }}
    }}
}}
''')
open(os.path.join(HW, "corpus", "order.rs"), "w").write("".join(out))
print("corpus/order.rs written")
