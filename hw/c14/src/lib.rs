//! C14 — behaviour does not depend on the order of declarations.
#![allow(clippy::all)]
#![allow(dead_code, unused_imports, unused_mut, static_mut_refs, deprecated)]

#[path = "../../corpus/order.rs"]
pub mod order;

/// acceptance gate only: a generic contract whose exec handlers use the parameters in an INTERLEAVED
/// order (A, B, V, A); the same handlers in a non-interleaved order are trivially accepted
#[path = "../../corpus/generic.rs"]
pub mod generic;

/// Every twin must be ACCEPTED and must emit the same set of entry points (compile gate, native too).
#[allow(path_statements)]
pub fn twins_exist() {
    macro_rules! eps {
        ($m:ident) => {
            let _ = crate::order::$m::entry_points::instantiate;
            let _ = crate::order::$m::entry_points::execute;
            let _ = crate::order::$m::entry_points::query;
            let _ = crate::order::$m::entry_points::sudo;
            let _ = crate::order::$m::entry_points::migrate;
            let _ = crate::order::$m::entry_points::reply;
            let _ = crate::order::$m::ovr::entry_points::instantiate;
            let _ = crate::order::$m::ovr::entry_points::execute;
            let _ = crate::order::$m::ovr::entry_points::query;
            let _ = crate::order::$m::sv::BOTH_REPLY_ID;
            let _ = crate::order::$m::sv::SOLO_REPLY_ID;
            let _ = crate::order::$m::sv::PL_REPLY_ID;
        };
    }
    eps!(fwd);
    eps!(rev);
    eps!(rot);
}

#[cfg(kani)]
#[path = "../../corpus/basic_names_h.rs"]
pub mod basic_names_h;

#[cfg(kani)]
mod h {
    use crate::basic_names_h::{accepted, any_name, as_str};
    use crate::order::{fwd, rev, rot, OrdErr};
    use support::call::{any_in, In};
    use support::echo::{self, Log};
    use support::env::one_char;
    use support::rec::{rec_eq, record};
    use support::stubs::{bt_disabled, fmt_stub};
    use support::sym::str_eq;
    use sylvia::cw_std::{Binary, Empty, Reply, Response, SubMsgResponse, SubMsgResult};

    fn lists_same(a: &[&str], b: &[&str]) -> bool {
        if a.len() != b.len() {
            return false;
        }
        let mut i = 0;
        while i < a.len() {
            if !str_eq(a[i], b[i]) {
                return false;
            }
            i += 1;
        }
        true
    }

    /// Published name lists (routing tables) are identical in every declaration order.
    #[kani::proof]
    #[kani::unwind(5)]
    fn lists_equal() {
        macro_rules! same {
            ($a:ident, $b:ident) => {
                assert!(lists_same(&$a::sv::execute_messages(), &$b::sv::execute_messages()));
                assert!(lists_same(&$a::sv::query_messages(), &$b::sv::query_messages()));
                assert!(lists_same(&$a::sv::sudo_messages(), &$b::sv::sudo_messages()));
                assert!(lists_same(&$a::ifo::sv::execute_messages(), &$b::ifo::sv::execute_messages()));
                assert!(lists_same(&$a::ifo::sv::query_messages(), &$b::ifo::sv::query_messages()));
                assert!(lists_same(&$a::ifo::sv::sudo_messages(), &$b::ifo::sv::sudo_messages()));
                assert!(lists_same(&$a::ifp::sv::execute_messages(), &$b::ifp::sv::execute_messages()));
            };
        }
        same!(fwd, rev);
        same!(fwd, rot);
        assert!(fwd::sv::execute_messages().len() == 3 && fwd::ifo::sv::execute_messages().len() == 2);
        kani::cover!(true);
    }

    /// Wire format, name dimension: every received name (symbolic bytes) is accepted by a message
    /// type of one twin iff it is accepted by the same type of the other twins.
    macro_rules! names_equal {
        ($name:ident, $len:literal) => {
            #[kani::proof]
            #[kani::unwind(6)]
            fn $name() {
                let b = any_name::<$len>();
                let s = as_str(&b);
                macro_rules! same {
                    ($ty:ident) => {
                        let f = accepted::<fwd::sv::$ty>(s);
                        assert!(f == accepted::<rev::sv::$ty>(s) && f == accepted::<rot::sv::$ty>(s));
                    };
                    ($iface:ident, $ty:ident) => {
                        let f = accepted::<fwd::$iface::sv::$ty>(s);
                        assert!(f == accepted::<rev::$iface::sv::$ty>(s) && f == accepted::<rot::$iface::sv::$ty>(s));
                    };
                }
                same!(ExecMsg);
                same!(QueryMsg);
                same!(SudoMsg);
                same!(ifo, IfoExecMsg);
                same!(ifo, IfoQueryMsg);
                same!(ifo, IfoSudoMsg);
                same!(ifp, IfpExecMsg);
                kani::cover!(accepted::<fwd::sv::ExecMsg>(s), "an accepted exec name");
                kani::cover!(!accepted::<fwd::sv::ExecMsg>(s), "a rejected name");
            }
        };
    }
    names_equal!(names_equal_2, 2);

    /// Wire format, value dimension: equal messages of the twins serialise to equal serde events.
    #[kani::proof]
    #[kani::unwind(9)]
    fn ser_equal() {
        let a: u32 = kani::any();
        let b: u32 = kani::any();
        let x: u64 = kani::any();
        let sel: u8 = kani::any();
        kani::assume(sel < 6);
        macro_rules! triple {
            ($($path:ident)::+ { $($f:tt)* }) => {
                (record(&fwd::$($path)::+ { $($f)* }), record(&rev::$($path)::+ { $($f)* }), record(&rot::$($path)::+ { $($f)* }))
            };
        }
        let (f, r, t) = match sel {
            0 => triple!(sv::ExecMsg::E1 { a, b }),
            1 => triple!(sv::ExecMsg::E3 { x }),
            2 => triple!(sv::QueryMsg::G2 { a, b }),
            3 => triple!(sv::SudoMsg::S2 { n: x }),
            4 => triple!(ifo::sv::IfoExecMsg::X2 { a, b }),
            _ => triple!(sv::InstantiateMsg { a, b }),
        };
        match (&f, &r, &t) {
            (Ok(f), Ok(r), Ok(t)) => assert!(rec_eq(f, r) && rec_eq(f, t), "same wire format in every order"),
            _ => assert!(false),
        }
        kani::cover!(sel == 4);
    }

    fn log_eq(a: &Log, b: &Log) -> bool {
        a.count == b.count && a.id == b.id && a.args[0] == b.args[0] && a.args[1] == b.args[1] && a.args[2] == b.args[2] && a.args[3] == b.args[3]
    }
    fn out_eq(a: &Result<Response<Empty>, OrdErr>, b: &Result<Response<Empty>, OrdErr>) -> bool {
        match (a, b) {
            (Ok(x), Ok(y)) => echo::resp_data(x) == echo::resp_data(y) && x.events.len() == y.events.len(),
            (Err(OrdErr::Mine(x)), Err(OrdErr::Mine(y))) => x == y,
            (Err(OrdErr::Std(_)), Err(OrdErr::Std(_))) => true,
            _ => false,
        }
    }

    /// Dispatch targets: the same contract-level exec message dispatched on two twins runs the same
    /// handler with the same arguments and gives the same outcome.
    macro_rules! exec_equal {
        ($name:ident, $a:ident, $b:ident) => {
            #[kani::proof]
            #[kani::unwind(6)]
            #[kani::stub(std::backtrace::Backtrace::capture, bt_disabled)]
            #[kani::stub(alloc::fmt::format, fmt_stub)]
            fn $name() {
                let i = any_in();
                let p: u32 = kani::any();
                let q: u32 = kani::any();
                let x: u64 = kani::any();
                let sel: u8 = kani::any();
                kani::assume(sel < 6);
                macro_rules! run {
                    ($m:ident) => {{
                        echo::reset();
                        let mut w = i.world();
                        let msg = match sel {
                            0 => $m::sv::ContractExecMsg::Oc($m::sv::ExecMsg::E1 { a: p, b: q }),
                            1 => $m::sv::ContractExecMsg::Oc($m::sv::ExecMsg::E2 { a: p, b: q }),
                            2 => $m::sv::ContractExecMsg::Oc($m::sv::ExecMsg::E3 { x }),
                            3 => $m::sv::ContractExecMsg::Ifo($m::ifo::sv::IfoExecMsg::X1 { a: p, b: q }),
                            4 => $m::sv::ContractExecMsg::Ifo($m::ifo::sv::IfoExecMsg::X2 { a: p, b: q }),
                            _ => $m::sv::ContractExecMsg::Ifp($m::ifp::sv::IfpExecMsg::P1 { n: x }),
                        };
                        let r = $m::entry_points::execute(w.deps_mut(), i.env(), i.info(), msg);
                        (echo::log(), r)
                    }};
                }
                let (la, ra) = run!($a);
                let (lb, rb) = run!($b);
                assert!(la.count == 1 && log_eq(&la, &lb), "same handler, same arguments in both orders");
                assert!(out_eq(&ra, &rb), "same outcome in both orders");
                kani::cover!(sel == 5 && ra.is_ok());
                kani::cover!(sel == 1 && ra.is_err());
                core::mem::forget((ra, rb));
            }
        };
    }
    exec_equal!(exec_equal_fwd_rev, fwd, rev);
    exec_equal!(exec_equal_fwd_rot, fwd, rot);

    /// Same for sudo and the flat kinds.
    macro_rules! sudo_flat_equal {
        ($name:ident, $a:ident, $b:ident) => {
            #[kani::proof]
            #[kani::unwind(6)]
            #[kani::stub(std::backtrace::Backtrace::capture, bt_disabled)]
            #[kani::stub(alloc::fmt::format, fmt_stub)]
            fn $name() {
                let i = any_in();
                let p: u32 = kani::any();
                let q: u32 = kani::any();
                let x: u64 = kani::any();
                let sel: u8 = kani::any();
                kani::assume(sel < 5);
                macro_rules! run {
                    ($m:ident) => {{
                        echo::reset();
                        let mut w = i.world();
                        let r = match sel {
                            0 => $m::entry_points::sudo(w.deps_mut(), i.env(), $m::sv::ContractSudoMsg::Oc($m::sv::SudoMsg::S1 { n: x })),
                            1 => $m::entry_points::sudo(w.deps_mut(), i.env(), $m::sv::ContractSudoMsg::Oc($m::sv::SudoMsg::S2 { n: x })),
                            2 => $m::entry_points::sudo(w.deps_mut(), i.env(), $m::sv::ContractSudoMsg::Ifo($m::ifo::sv::IfoSudoMsg::Z1 { n: x })),
                            3 => $m::entry_points::instantiate(w.deps_mut(), i.env(), i.info(), $m::sv::InstantiateMsg { a: p, b: q }),
                            _ => $m::entry_points::migrate(w.deps_mut(), i.env(), $m::sv::MigrateMsg { a: p, b: q }),
                        };
                        (echo::log(), r)
                    }};
                }
                let (la, ra) = run!($a);
                let (lb, rb) = run!($b);
                assert!(la.count == 1 && log_eq(&la, &lb), "same handler, same arguments in both orders");
                assert!(out_eq(&ra, &rb), "same outcome in both orders");
                kani::cover!(sel == 2);
                kani::cover!(sel == 4);
                core::mem::forget((ra, rb));
            }
        };
    }
    sudo_flat_equal!(sudo_flat_equal_fwd_rev, fwd, rev);
    sudo_flat_equal!(sudo_flat_equal_fwd_rot, fwd, rot);

    /// Reply behaviour: the reply for handler name `both` (success method with data + error method,
    /// declared in either order) and `solo`, sent with each twin's own id constant, reaches the same
    /// method with the same arguments; only the numeric ids may differ.
    macro_rules! reply_equal {
        ($name:ident, $a:ident, $b:ident) => {
            #[kani::proof]
            #[kani::unwind(6)]
            #[kani::stub(std::backtrace::Backtrace::capture, bt_disabled)]
            #[kani::stub(alloc::fmt::format, fmt_stub)]
            fn $name() {
                let i = any_in();
                let gas: u64 = kani::any();
                let ok: bool = kani::any();
                let has_data: bool = kani::any();
                let d: u8 = kani::any();
                let pb: u8 = kani::any();
                let eb: u8 = kani::any();
                kani::assume(eb < 128);
                let solo: bool = kani::any();
                // third name `pl`: success method WITHOUT data parameter + error method (error first in `rev`)
                let pl: bool = kani::any();
                kani::assume(!(pl && solo));
                macro_rules! run {
                    ($m:ident) => {{
                        echo::reset();
                        let mut w = i.world();
                        #[allow(deprecated)]
                        let result = if ok {
                            SubMsgResult::Ok(SubMsgResponse { events: Vec::new(), data: if has_data { Some(Binary::from(vec![d])) } else { None }, msg_responses: Vec::new() })
                        } else {
                            SubMsgResult::Err(one_char(eb))
                        };
                        let id = if pl { $m::sv::PL_REPLY_ID } else if solo { $m::sv::SOLO_REPLY_ID } else { $m::sv::BOTH_REPLY_ID };
                        let msg = Reply { id, payload: Binary::from(vec![pb]), gas_used: gas, result };
                        let r = $m::entry_points::reply(w.deps_mut(), i.env(), msg);
                        (echo::log(), r)
                    }};
                }
                let (la, ra) = run!($a);
                let (lb, rb) = run!($b);
                assert!(log_eq(&la, &lb), "same reply method, same arguments in both orders");
                assert!(out_eq(&ra, &rb), "same outcome in both orders");
                // and it is the declared one (fwd is the reference order): success -> 7 / 12, failure -> 10 / pass-through
                if pl {
                    assert!(la.count == 1 && la.id == if ok { 13 } else { 14 });
                } else if !solo {
                    assert!(la.count == 1 && la.id == if ok { 7 } else { 10 });
                } else if ok {
                    assert!(la.count == 1 && la.id == 12);
                } else {
                    assert!(la.count == 0 && ra.is_err());
                }
                kani::cover!(!solo && ok && has_data, "success with data under the shared name");
                kani::cover!(!solo && !ok, "failure under the shared name");
                kani::cover!(solo && !ok, "uncovered failure");
                kani::cover!(pl && ok, "success under the data-less shared name");
                kani::cover!(pl && !ok, "failure under the data-less shared name");
                core::mem::forget((ra, rb));
            }
        };
    }
    reply_equal!(reply_equal_fwd_rev, fwd, rev);
    reply_equal!(reply_equal_fwd_rot, fwd, rot);

    /// Sub-message builders: the builder of the shared name requests the same trigger in every order
    /// (a success and an error method exist => Always), stamps its own twin's id, and keeps the payload.
    #[kani::proof]
    #[kani::unwind(6)]
    #[kani::stub(std::backtrace::Backtrace::capture, bt_disabled)]
    #[kani::stub(alloc::fmt::format, fmt_stub)]
    fn builder_equal() {
        use sylvia::cw_std::{ReplyOn, WasmMsg};
        let pb: u8 = kani::any();
        let solo: bool = kani::any();
        macro_rules! build {
            ($m:ident) => {{
                use $m::sv::SubMsgMethods;
                let base = WasmMsg::ClearAdmin { contract_addr: String::new() };
                let r: sylvia::cw_std::StdResult<sylvia::cw_std::SubMsg<Empty>> =
                    if solo { base.solo(Binary::from(vec![pb])) } else { base.both(Binary::from(vec![pb])) };
                match r {
                    Ok(s) => {
                        let want_id = if solo { $m::sv::SOLO_REPLY_ID } else { $m::sv::BOTH_REPLY_ID };
                        assert!(s.id == want_id, "builder stamps its own handler's id");
                        assert!(s.payload.as_slice().len() == 1 && s.payload.as_slice()[0] == pb);
                        let k = match s.reply_on {
                            ReplyOn::Always => 0u8,
                            ReplyOn::Success => 1,
                            ReplyOn::Error => 2,
                            ReplyOn::Never => 3,
                        };
                        core::mem::forget(s);
                        k
                    }
                    Err(e) => {
                        core::mem::forget(e);
                        9
                    }
                }
            }};
        }
        let f = build!(fwd);
        let r = build!(rev);
        let t = build!(rot);
        assert!(f == r && f == t, "same reply trigger in every declaration order");
        assert!(f == if solo { 1 } else { 0 }, "shared name with success and error methods => Always; solo success => Success");
        kani::cover!(solo);
        kani::cover!(!solo);
    }

    /// Override attributes in either order: the non-overridden entry points forward identically.
    #[kani::proof]
    #[kani::unwind(6)]
    #[kani::stub(std::backtrace::Backtrace::capture, bt_disabled)]
    #[kani::stub(alloc::fmt::format, fmt_stub)]
    fn override_order_equal() {
        let i = any_in();
        let x: u64 = kani::any();
        macro_rules! run {
            ($m:ident) => {{
                echo::reset();
                let mut w = i.world();
                let r = $m::ovr::entry_points::execute(w.deps_mut(), i.env(), i.info(), $m::ovr::sv::ContractExecMsg::Ov($m::ovr::sv::ExecMsg::Oe { n: x }));
                (echo::log(), r)
            }};
        }
        let (la, ra) = run!(fwd);
        let (lb, rb) = run!(rev);
        assert!(la.count == 1 && la.id == 42 && log_eq(&la, &lb) && out_eq(&ra, &rb));
        kani::cover!(ra.is_ok());
        core::mem::forget((ra, rb));
    }

    // @PLAYBACK h@
}
