//! C11 — bridging to chain-custom types preserves the response and the call.
#![allow(clippy::all)]
#![allow(dead_code, unused_imports, unused_mut, static_mut_refs, deprecated)]

#[path = "../../corpus/custom.rs"]
pub mod custom;

#[cfg(kani)]
mod h {
    use crate::custom::cc::sv::{ContractExecMsg, ContractQueryMsg, ContractSudoMsg, ExecMsg};
    use crate::custom::cc::Cc;
    use crate::custom::native::sv::NativeExecMsg;
    use crate::custom::plain::sv::{PlainExecMsg, PlainQueryMsg, PlainSudoMsg};
    use crate::custom::{reply_on_of, CcErr, MyMsg, MyQuery, Shape, SHAPE};
    use support::call::{any_in, check_call, check_no_call, In};
    use support::echo;
    use support::env::one_char;
    use support::stubs::{bt_disabled, fmt_stub};
    use support::sym::{bytes_eq, str_eq};
    use sylvia::cw_std::{
        BankMsg, Binary, CosmosMsg, Empty, Event, ReplyOn, Response, StdResult, SubMsg, WasmMsg,
    };
    use sylvia::into_response::{IntoMsg, IntoResponse};

    fn ro_eq(a: &ReplyOn, b: &ReplyOn) -> bool {
        matches!(
            (a, b),
            (ReplyOn::Always, ReplyOn::Always)
                | (ReplyOn::Success, ReplyOn::Success)
                | (ReplyOn::Error, ReplyOn::Error)
                | (ReplyOn::Never, ReplyOn::Never)
        )
    }

    /// A message of the `k`-th variant compiled into `CosmosMsg<Empty>`, with light payloads.
    /// Returns the message; `N_VARIANTS` depends on the feature set.
    fn variant(k: u8) -> CosmosMsg<Empty> {
        match k {
            0 => CosmosMsg::Bank(BankMsg::Burn { amount: Vec::new() }),
            1 => CosmosMsg::Custom(Empty {}),
            2 => CosmosMsg::Wasm(WasmMsg::ClearAdmin { contract_addr: String::new() }),
            #[cfg(feature = "full")]
            3 => CosmosMsg::Stargate { type_url: String::new(), value: Binary::default() },
            #[cfg(feature = "full")]
            4 => CosmosMsg::Any(sylvia::cw_std::AnyMsg { type_url: String::new(), value: Binary::default() }),
            #[cfg(feature = "full")]
            5 => CosmosMsg::Ibc(sylvia::cw_std::IbcMsg::CloseChannel { channel_id: String::new() }),
            #[cfg(feature = "full")]
            6 => CosmosMsg::Gov(sylvia::cw_std::GovMsg::Vote { proposal_id: 7, option: sylvia::cw_std::VoteOption::Yes }),
            #[cfg(feature = "full")]
            7 => CosmosMsg::Staking(sylvia::cw_std::StakingMsg::Undelegate {
                validator: String::new(),
                amount: sylvia::cw_std::Coin { denom: String::new(), amount: sylvia::cw_std::Uint128::new(3) },
            }),
            #[cfg(feature = "full")]
            _ => CosmosMsg::Distribution(sylvia::cw_std::DistributionMsg::SetWithdrawAddress { address: String::new() }),
            #[cfg(not(feature = "full"))]
            3 => CosmosMsg::Staking(sylvia::cw_std::StakingMsg::Undelegate {
                validator: String::new(),
                amount: sylvia::cw_std::Coin { denom: String::new(), amount: sylvia::cw_std::Uint128::new(3) },
            }),
            #[cfg(not(feature = "full"))]
            _ => CosmosMsg::Distribution(sylvia::cw_std::DistributionMsg::SetWithdrawAddress { address: String::new() }),
        }
    }
    #[cfg(feature = "full")]
    const N_VARIANTS: u8 = 9;
    #[cfg(not(feature = "full"))]
    const N_VARIANTS: u8 = 5;

    /// Same variant (discriminant-level; payloads of the light variants are constants).
    fn same_variant(a: &CosmosMsg<Empty>, b: &CosmosMsg<MyMsg>) -> bool {
        match (a, b) {
            (CosmosMsg::Bank(BankMsg::Burn { amount: x }), CosmosMsg::Bank(BankMsg::Burn { amount: y })) => x.len() == y.len(),
            (CosmosMsg::Wasm(WasmMsg::ClearAdmin { .. }), CosmosMsg::Wasm(WasmMsg::ClearAdmin { .. })) => true,
            (CosmosMsg::Staking(_), CosmosMsg::Staking(_)) => true,
            (CosmosMsg::Distribution(_), CosmosMsg::Distribution(_)) => true,
            #[cfg(feature = "full")]
            (CosmosMsg::Stargate { .. }, CosmosMsg::Stargate { .. }) => true,
            #[cfg(feature = "full")]
            (CosmosMsg::Any(_), CosmosMsg::Any(_)) => true,
            #[cfg(feature = "full")]
            (CosmosMsg::Ibc(_), CosmosMsg::Ibc(_)) => true,
            #[cfg(feature = "full")]
            (CosmosMsg::Gov(sylvia::cw_std::GovMsg::Vote { proposal_id: p, .. }), CosmosMsg::Gov(sylvia::cw_std::GovMsg::Vote { proposal_id: q, .. })) => p == q,
            _ => false,
        }
    }

    /// `IntoMsg::into_msg`: fails exactly for the custom-typed message, otherwise every field equal.
    #[kani::proof]
    #[kani::unwind(4)]
    #[kani::stub(std::backtrace::Backtrace::capture, bt_disabled)]
    #[kani::stub(alloc::fmt::format, fmt_stub)]
    fn into_msg_all() {
        let k: u8 = kani::any();
        kani::assume(k < N_VARIANTS);
        let id: u64 = kani::any();
        let gas: Option<u64> = if kani::any() { Some(kani::any()) } else { None };
        let ro: u8 = kani::any();
        kani::assume(ro < 4);
        let pb: u8 = kani::any();
        let reference = variant(k);
        let sub = SubMsg::<Empty> {
            id,
            msg: variant(k),
            gas_limit: gas,
            reply_on: reply_on_of(ro),
            payload: Binary::from(vec![pb]),
        };
        let out: StdResult<SubMsg<MyMsg>> = sub.into_msg();
        match &out {
            Ok(o) => {
                assert!(k != 1, "a custom-typed message must not be converted");
                assert!(o.id == id, "id");
                assert!(o.gas_limit == gas, "gas limit");
                assert!(ro_eq(&o.reply_on, &reply_on_of(ro)), "reply trigger");
                assert!(bytes_eq(o.payload.as_slice(), &[pb]), "payload");
                assert!(same_variant(&reference, &o.msg), "message");
            }
            Err(_) => assert!(k == 1, "the conversion fails exactly for the custom-typed message"),
        }
        kani::cover!(k == 1, "custom message");
        kani::cover!(k == 0 && out.is_ok(), "bank message converted");
        kani::cover!(k == N_VARIANTS - 1 && out.is_ok(), "last variant converted");
        #[cfg(feature = "full")]
        kani::cover!(k == 3, "stargate message");
        core::mem::forget(out);
        core::mem::forget(reference);
    }

    fn mk_sub(i: usize, ids: &[u64; 2], gas: &[Option<u64>; 2], ro: &[u8; 2], pb: &[u8; 2], custom: bool) -> SubMsg<Empty> {
        SubMsg {
            id: ids[i],
            msg: if custom {
                CosmosMsg::Custom(Empty {})
            } else {
                CosmosMsg::Wasm(WasmMsg::ClearAdmin { contract_addr: String::new() })
            },
            gas_limit: gas[i],
            reply_on: reply_on_of(ro[i]),
            payload: Binary::from(vec![pb[i]]),
        }
    }

    /// `IntoResponse::into_response`, success path with N non-custom sub-messages (N concrete):
    /// order, id, payload, gas limit, reply trigger of each, attributes, events and data intact.
    macro_rules! into_resp_ok {
        ($name:ident, $n:literal, $unw:literal) => {
            #[kani::proof]
            #[kani::unwind($unw)]
            #[kani::stub(std::backtrace::Backtrace::capture, bt_disabled)]
            #[kani::stub(alloc::fmt::format, fmt_stub)]
            fn $name() {
                let ids: [u64; 2] = kani::any();
                let gas: [Option<u64>; 2] = [
                    if kani::any() { Some(kani::any()) } else { None },
                    if kani::any() { Some(kani::any()) } else { None },
                ];
                let ro: [u8; 2] = kani::any();
                kani::assume(ro[0] < 4 && ro[1] < 4);
                let pb: [u8; 2] = kani::any();
                let has_attr: bool = kani::any();
                let has_ev: bool = kani::any();
                let has_data: bool = kani::any();
                let s: [u8; 3] = kani::any();
                // cosmwasm-std reserves attribute keys starting with `_` (debug-assertion panic in Attribute::new)
                kani::assume(s[0] < 128 && s[1] < 128 && s[2] < 128 && s[0] != b'_');
                let d: u8 = kani::any();
                let mut r = Response::<Empty>::new();
                let mut k = 0;
                while k < $n {
                    r = r.add_submessage(mk_sub(k, &ids, &gas, &ro, &pb, false));
                    k += 1;
                }
                if has_attr {
                    r = r.add_attribute(one_char(s[0]), one_char(s[1]));
                }
                if has_ev {
                    r = r.add_event(Event::new(one_char(s[2])));
                }
                if has_data {
                    r.data = Some(Binary::from(vec![d]));
                }
                let out: StdResult<Response<MyMsg>> = r.into_response();
                match &out {
                    Ok(o) => {
                        assert!(o.messages.len() == $n, "every sub-message kept");
                        let mut k = 0;
                        while k < $n {
                            let m = &o.messages[k];
                            assert!(m.id == ids[k] && m.gas_limit == gas[k], "order, id and gas limit");
                            assert!(ro_eq(&m.reply_on, &reply_on_of(ro[k])), "reply trigger");
                            assert!(bytes_eq(m.payload.as_slice(), &[pb[k]]), "payload");
                            assert!(matches!(&m.msg, CosmosMsg::Wasm(WasmMsg::ClearAdmin { .. })), "message");
                            k += 1;
                        }
                        assert!(o.attributes.len() == if has_attr { 1 } else { 0 }, "attributes");
                        if has_attr {
                            assert!(str_eq(&o.attributes[0].key, &one_char(s[0])) && str_eq(&o.attributes[0].value, &one_char(s[1])));
                        }
                        assert!(o.events.len() == if has_ev { 1 } else { 0 }, "events");
                        if has_ev {
                            assert!(str_eq(&o.events[0].ty, &one_char(s[2])));
                        }
                        match &o.data {
                            Some(b) => assert!(has_data && bytes_eq(b.as_slice(), &[d]), "data"),
                            None => assert!(!has_data, "data"),
                        }
                        kani::cover!(has_attr && has_ev && has_data, "attribute, event and data present");
                    }
                    Err(_) => assert!(false, "no custom message: the conversion must succeed"),
                }
                core::mem::forget(out);
            }
        };
    }
    into_resp_ok!(into_resp_ok_0, 0, 2);
    into_resp_ok!(into_resp_ok_1, 1, 3);
    into_resp_ok!(into_resp_ok_2, 2, 4);

    /// Data that is present but EMPTY stays present (and stays empty).
    #[kani::proof]
    #[kani::unwind(4)]
    #[kani::stub(std::backtrace::Backtrace::capture, bt_disabled)]
    #[kani::stub(alloc::fmt::format, fmt_stub)]
    fn into_resp_empty_data() {
        let mut r = Response::<Empty>::new();
        r.data = Some(Binary::default());
        let out: StdResult<Response<MyMsg>> = r.into_response();
        match &out {
            Ok(o) => match &o.data {
                Some(b) => assert!(b.as_slice().is_empty(), "empty data stays empty"),
                None => assert!(false, "present (empty) data must stay present"),
            },
            Err(_) => assert!(false),
        }
        kani::cover!(true);
        core::mem::forget(out);
    }

    /// Order of several attributes and events is preserved (no sub-messages).
    #[kani::proof]
    #[kani::unwind(4)]
    #[kani::stub(std::backtrace::Backtrace::capture, bt_disabled)]
    #[kani::stub(alloc::fmt::format, fmt_stub)]
    fn into_resp_order() {
        let s: [u8; 6] = kani::any();
        kani::assume(s[0] < 128 && s[1] < 128 && s[2] < 128 && s[3] < 128 && s[4] < 128 && s[5] < 128);
        kani::assume(s[0] != b'_' && s[2] != b'_');
        let r = Response::<Empty>::new()
            .add_attribute(one_char(s[0]), one_char(s[1]))
            .add_attribute(one_char(s[2]), one_char(s[3]))
            .add_event(Event::new(one_char(s[4])))
            .add_event(Event::new(one_char(s[5])));
        let out: StdResult<Response<MyMsg>> = r.into_response();
        match &out {
            Ok(o) => {
                assert!(o.attributes.len() == 2 && o.events.len() == 2 && o.messages.is_empty() && o.data.is_none());
                assert!(str_eq(&o.attributes[0].key, &one_char(s[0])) && str_eq(&o.attributes[0].value, &one_char(s[1])), "first attribute first");
                assert!(str_eq(&o.attributes[1].key, &one_char(s[2])) && str_eq(&o.attributes[1].value, &one_char(s[3])), "second attribute second");
                assert!(str_eq(&o.events[0].ty, &one_char(s[4])) && str_eq(&o.events[1].ty, &one_char(s[5])), "events in order");
            }
            Err(_) => assert!(false),
        }
        kani::cover!(s[0] != s[2] && s[4] != s[5], "distinguishable attributes and events");
        core::mem::forget(out);
    }

    /// Error path: a response whose only sub-message is custom-typed => Err (and, the result being a
    /// `StdResult`, no partial response exists).
    #[kani::proof]
    #[kani::unwind(5)]
    #[kani::stub(std::backtrace::Backtrace::capture, bt_disabled)]
    #[kani::stub(alloc::fmt::format, fmt_stub)]
    fn into_resp_err_1() {
        let ids: [u64; 2] = kani::any();
        let gas: [Option<u64>; 2] = [None, None];
        let ro: [u8; 2] = kani::any();
        kani::assume(ro[0] < 4 && ro[1] < 4);
        let pb: [u8; 2] = kani::any();
        let r = Response::<Empty>::new().add_submessage(mk_sub(0, &ids, &gas, &ro, &pb, true));
        let out: StdResult<Response<MyMsg>> = r.into_response();
        assert!(out.is_err(), "a custom-typed message makes the conversion fail");
        kani::cover!(true);
        core::mem::forget(out);
    }

    // ---- the generated `: custom(msg, query)` arms ------------------------------------------

    /// `sub` (0 none / 1 non-custom / 2 custom-typed sub-message) is concrete per harness instance:
    /// with a symbolic choice the error path of `into_response` (drop of the un-moved remainder)
    /// meets the non-empty vector and CBMC runs out of memory (> 30 GB, measured).
    fn any_shape(sub: u8) -> Shape {
        let s = Shape {
            sub,
            sub_id: kani::any(),
            sub_gas: if kani::any() { Some(kani::any()) } else { None },
            sub_reply_on: kani::any(),
            sub_payload: kani::any(),
            attr: kani::any(),
            ak: kani::any(),
            av: kani::any(),
            event: kani::any(),
            ety: kani::any(),
        };
        // cosmwasm-std reserves attribute keys starting with `_`
        kani::assume(s.sub_reply_on < 4 && s.ak < 128 && s.av < 128 && s.ety < 128 && s.ak != b'_');
        unsafe {
            SHAPE = s;
        }
        s
    }

    /// The interface handler's response reaches the caller intact, or Err exactly when it holds a
    /// custom-typed message.
    fn check_bridged(i: &In, s: &Shape, res: &Result<Response<MyMsg>, CcErr>) {
        match res {
            Ok(o) => {
                assert!(!i.ctl.fail && s.sub != 2, "Ok only for an Ok handler outcome without custom message");
                let (has, d0, len) = echo::resp_data(o);
                assert!(has && len == 1 && d0 == i.ctl.data, "data intact");
                assert!(o.attributes.len() == if s.attr { 1 } else { 0 }, "attributes intact");
                if s.attr {
                    assert!(str_eq(&o.attributes[0].key, &one_char(s.ak)) && str_eq(&o.attributes[0].value, &one_char(s.av)));
                }
                assert!(o.events.len() == if s.event { 1 } else { 0 }, "events intact");
                if s.event {
                    assert!(str_eq(&o.events[0].ty, &one_char(s.ety)));
                }
                assert!(o.messages.len() == if s.sub == 1 { 1 } else { 0 }, "sub-messages intact");
                if s.sub == 1 {
                    let m = &o.messages[0];
                    assert!(m.id == s.sub_id && m.gas_limit == s.sub_gas, "id and gas limit");
                    assert!(ro_eq(&m.reply_on, &reply_on_of(s.sub_reply_on)), "reply trigger");
                    assert!(bytes_eq(m.payload.as_slice(), &[s.sub_payload]), "payload");
                    assert!(matches!(&m.msg, CosmosMsg::Wasm(WasmMsg::ClearAdmin { .. })), "message");
                }
            }
            Err(CcErr::Mine(c)) => assert!(i.ctl.fail && *c == i.ctl.code, "handler's own error"),
            Err(CcErr::Std(_)) => assert!(!i.ctl.fail && s.sub == 2, "conversion error exactly for a custom-typed message"),
        }
    }

    macro_rules! bridge {
        ($name:ident, $sub:literal, $unw:literal, exec) => {
            #[kani::proof]
            #[kani::unwind($unw)]
            #[kani::stub(std::backtrace::Backtrace::capture, bt_disabled)]
            #[kani::stub(alloc::fmt::format, fmt_stub)]
            fn $name() {
                let i = any_in();
                let s = any_shape($sub);
                let n: u64 = kani::any();
                let mut w = i.world();
                let msg = ContractExecMsg::Plain(PlainExecMsg::PExec { n });
                let res = msg.dispatch(&Cc::new(), (w.deps_mut::<MyQuery>(), i.env(), i.info()));
                check_call(&i, &w, 610, [n, 0, 0, 0], true, true);
                check_bridged(&i, &s, &res);
                kani::cover!(!i.ctl.fail, "handler Ok");
                kani::cover!(i.ctl.fail, "handler error");
                core::mem::forget(res);
            }
        };
        ($name:ident, $sub:literal, $unw:literal, sudo) => {
            #[kani::proof]
            #[kani::unwind($unw)]
            #[kani::stub(std::backtrace::Backtrace::capture, bt_disabled)]
            #[kani::stub(alloc::fmt::format, fmt_stub)]
            fn $name() {
                let i = any_in();
                let s = any_shape($sub);
                let n: u64 = kani::any();
                let mut w = i.world();
                let msg = ContractSudoMsg::Plain(PlainSudoMsg::PSudo { n });
                let res = msg.dispatch(&Cc::new(), (w.deps_mut::<MyQuery>(), i.env()));
                check_call(&i, &w, 630, [n, 0, 0, 0], false, true);
                check_bridged(&i, &s, &res);
                kani::cover!(!i.ctl.fail, "handler Ok");
                kani::cover!(i.ctl.fail, "handler error");
                core::mem::forget(res);
            }
        };
    }
    // Not registered in harnesses.json: measured beyond the budget (minimal instance > 700 s, symbolic
    // sub-mode > 30 GB).  Kept so that the attempt can be re-measured: `--harness h::bridge_exec_0`.
    bridge!(bridge_exec_0, 0, 2, exec);
    bridge!(bridge_sudo_0, 0, 2, sudo);

    #[kani::proof]
    #[kani::unwind(10)]
    #[kani::stub(std::backtrace::Backtrace::capture, bt_disabled)]
    #[kani::stub(alloc::fmt::format, fmt_stub)]
    fn bridge_query() {
        let i = any_in();
        let n: u64 = kani::any();
        let w = i.world();
        let msg = ContractQueryMsg::Plain(PlainQueryMsg::PQuery { n });
        let res = msg.dispatch(&Cc::new(), (w.deps::<MyQuery>(), i.env()));
        check_call(&i, &w, 620, [n, 0, 0, 0], false, false);
        match &res {
            Ok(bin) => {
                let b = bin.as_slice();
                assert!(!i.ctl.fail && b.len() == 7 && b[5] == b'0' + i.ctl.digit, "query result");
            }
            Err(CcErr::Mine(c)) => assert!(i.ctl.fail && *c == i.ctl.code),
            Err(_) => assert!(false),
        }
        kani::cover!(res.is_ok());
        kani::cover!(res.is_err());
        core::mem::forget(res);
    }

    /// `: custom(query)` arms of the query-only custom contract `Cq`: exec and sudo handlers of the
    /// Empty-typed interface see the caller's storage / api / querier / env / sender.
    #[kani::proof]
    #[kani::unwind(5)]
    #[kani::stub(std::backtrace::Backtrace::capture, bt_disabled)]
    #[kani::stub(alloc::fmt::format, fmt_stub)]
    fn cq_exec_sudo() {
        use crate::custom::cq::sv::{ContractExecMsg as QE, ContractSudoMsg as QS};
        use crate::custom::cq::Cq;
        let i = any_in();
        let n: u64 = kani::any();
        let sudo: bool = kani::any();
        let mut w = i.world();
        let res: Result<Response<Empty>, CcErr> = if sudo {
            QS::Plain(PlainSudoMsg::PSudo { n }).dispatch(&Cq::new(), (w.deps_mut::<MyQuery>(), i.env()))
        } else {
            QE::Plain(PlainExecMsg::PExec { n }).dispatch(&Cq::new(), (w.deps_mut::<MyQuery>(), i.env(), i.info()))
        };
        check_call(&i, &w, if sudo { 630 } else { 610 }, [n, 0, 0, 0], !sudo, true);
        match &res {
            Ok(o) => {
                let (has, d0, len) = echo::resp_data(o);
                assert!(!i.ctl.fail && has && len == 1 && d0 == i.ctl.data, "response intact");
                assert!(o.messages.is_empty() && o.attributes.is_empty() && o.events.is_empty());
            }
            Err(CcErr::Mine(c)) => assert!(i.ctl.fail && *c == i.ctl.code),
            Err(_) => assert!(false),
        }
        kani::cover!(sudo && res.is_ok());
        kani::cover!(!sudo && res.is_err());
        core::mem::forget(res);
    }

    /// Contrast: natively custom-typed interface and the contract's own handler, no bridge.
    #[kani::proof]
    #[kani::unwind(5)]
    #[kani::stub(std::backtrace::Backtrace::capture, bt_disabled)]
    #[kani::stub(alloc::fmt::format, fmt_stub)]
    fn native_exec() {
        let i = any_in();
        let n: u64 = kani::any();
        let own: bool = kani::any();
        let mut w = i.world();
        let msg = if own {
            ContractExecMsg::Cc(ExecMsg::CExec { n })
        } else {
            ContractExecMsg::Native(NativeExecMsg::NExec { n })
        };
        let res = msg.dispatch(&Cc::new(), (w.deps_mut::<MyQuery>(), i.env(), i.info()));
        check_call(&i, &w, if own { 510 } else { 710 }, [n, 0, 0, 0], true, true);
        match &res {
            Ok(o) => {
                let (has, d0, len) = echo::resp_data(o);
                assert!(!i.ctl.fail && has && len == 1 && d0 == i.ctl.data);
            }
            Err(CcErr::Mine(c)) => assert!(i.ctl.fail && *c == i.ctl.code),
            Err(_) => assert!(false),
        }
        kani::cover!(own && res.is_ok());
        kani::cover!(!own && res.is_err());
        core::mem::forget(res);
    }

    // @PLAYBACK h@
}
