//! C09, the two execute-envelope typed data modes (`#[sv::data]`, `#[sv::data(opt)]`).
#![allow(clippy::all)]
#![allow(dead_code, unused_imports, unused_mut, static_mut_refs, deprecated)]

#[path = "../../corpus/replies_typed.rs"]
pub mod replies_typed;

#[cfg(kani)]
mod h {
    use crate::replies_typed::rd::{sv, Rd};
    use crate::replies_typed::RdErr;
    use support::call::{any_in, check_call, check_no_call};
    use support::doc::{num, Msg, Obj, EMPTY0};
    use support::stubs::{bt_disabled, fmt_stub};
    use sylvia::cw_std::{Binary, Reply, SubMsgResponse, SubMsgResult, DOC_FLAT, DOC_KIND, DOC_M0, FROM_JSON_CALLS};

    /// register what the (intercepted) from_json will see as the JSON inside the envelope:
    /// kind 3 = flat object {k1: v1, k2: v2}
    fn reg_inner(keys: [&'static str; 2], v: [u64; 2]) {
        unsafe {
            DOC_KIND = 3;
            DOC_FLAT = Obj { keys, vals: [num(v[0]), num(v[1])] };
            FROM_JSON_CALLS = 0;
        }
    }

    /// Cells of the mode x data table for one mode.
    /// sel 0: data absent
    ///     1: envelope malformed (2 symbolic bytes that are NOT a well-formed execute envelope)
    ///     2: envelope well-formed, inner data absent        (bytes 0a 00)
    ///     3: envelope well-formed, inner JSON well-formed    (bytes 0a 01 xx, registered doc {v: d, zz: _})
    ///     4: envelope well-formed, inner JSON malformed      (registered doc {w: d, zz: _}: field v missing)
    ///     5: envelope well-formed, inner JSON value out of range (v: 256 + ..)
    macro_rules! typed_case {
        ($name:ident, $id:expr, $echo:literal, $opt:literal, $sel:literal) => {
            #[kani::proof]
            #[kani::unwind(12)]
            #[kani::stub(std::backtrace::Backtrace::capture, bt_disabled)]
            #[kani::stub(alloc::fmt::format, fmt_stub)]
            fn $name() {
                let i = any_in();
                let gas: u64 = kani::any();
                let d: u8 = kani::any();
                let junk: u64 = kani::any();
                // the inner bytes are CONCRETE (their content is irrelevant: from_json is intercepted; a
                // symbolic byte inside the envelope makes the protobuf parser not finish in 20 min)
                let xx: u8 = 0x7b;
                let e: [u8; 2] = kani::any();
                let data: Option<Binary> = match $sel {
                    0 => None,
                    1 => {
                        // not (tag byte for field 1 / wire type 2 followed by length 0)
                        kani::assume(!(((e[0] >> 3) == 1) && ((e[0] & 0b11) == 2) && e[1] == 0));
                        Some(Binary::from(e.to_vec()))
                    }
                    2 => Some(Binary::from(vec![0x0a, 0x00])),
                    _ => Some(Binary::from(vec![0x0a, 0x01, xx])),
                };
                match $sel {
                    3 => reg_inner(["v", "zz"], [d as u64, junk]),
                    4 => reg_inner(["w", "zz"], [d as u64, junk]),
                    5 => reg_inner(["v", "zz"], [256 + d as u64, junk]),
                    _ => reg_inner(["", ""], [0, 0]),
                }
                #[allow(deprecated)]
                let msg = Reply {
                    id: $id,
                    payload: Binary::from(vec![7u8]),
                    gas_used: gas,
                    result: SubMsgResult::Ok(SubMsgResponse { events: Vec::new(), data, msg_responses: Vec::new() }),
                };
                let mut w = i.world();
                let res = sv::dispatch_reply(w.deps_mut(), i.env(), msg, Rd::new());
                match $sel {
                    0 => {
                        if $opt {
                            check_call(&i, &w, $echo, [gas, 0, 1, 0], false, true);
                        } else {
                            check_no_call(&w);
                            assert!(res.is_err(), "missing data => missing-data error for the mandatory mode");
                        }
                    }
                    3 => {
                        // well-formed: envelope decoded, then the JSON inside it
                        check_call(&i, &w, $echo, [gas, 1 + d as u64, 1, 0], false, true);
                        assert!(unsafe { FROM_JSON_CALLS } == 1, "the JSON inside the envelope was decoded once");
                    }
                    _ => {
                        // undecodable data (envelope level or JSON level), or an envelope without inner data:
                        // always an error, and the handler is NOT invoked
                        check_no_call(&w);
                        assert!(res.is_err(), "undecodable data always fails with an error without invoking the handler");
                    }
                }
                kani::cover!(true, "cell reached");
                core::mem::forget(res);
            }
        };
    }
    typed_case!(t_absent, sv::TD_REPLY_ID, 500, false, 0);
    typed_case!(t_env_bad, sv::TD_REPLY_ID, 500, false, 1);
    typed_case!(t_inner_absent, sv::TD_REPLY_ID, 500, false, 2);
    typed_case!(t_ok, sv::TD_REPLY_ID, 500, false, 3);
    typed_case!(t_json_bad, sv::TD_REPLY_ID, 500, false, 4);
    typed_case!(t_json_range, sv::TD_REPLY_ID, 500, false, 5);
    // mandatory typed mode whose parameter type is spelled Option<_>: the MODE decides, not the type
    typed_case!(y_absent, sv::TD_OTY_REPLY_ID, 515, false, 0);
    typed_case!(y_inner_absent, sv::TD_OTY_REPLY_ID, 515, false, 2);
    typed_case!(o_absent, sv::TD_OPT_REPLY_ID, 510, true, 0);
    typed_case!(o_env_bad, sv::TD_OPT_REPLY_ID, 510, true, 1);
    typed_case!(o_inner_absent, sv::TD_OPT_REPLY_ID, 510, true, 2);
    typed_case!(o_ok, sv::TD_OPT_REPLY_ID, 510, true, 3);
    typed_case!(o_json_bad, sv::TD_OPT_REPLY_ID, 510, true, 4);
    typed_case!(o_json_range, sv::TD_OPT_REPLY_ID, 510, true, 5);

    /// Typed payload (C07 / C08, dispatch side, with from_json replaced by the registered serde-doc).
    /// sel 0: handler covers the outcome, payload document well-formed  -> handler runs with the value
    ///     1: handler covers the outcome, payload document malformed    -> error, handler NOT invoked
    ///     2: the outcome is NOT covered (success-only name, failed sub-message; error-only name,
    ///        successful sub-message): as if no reply had been requested -- the payload is not even
    ///        looked at, whatever it holds
    macro_rules! payload_case {
        ($name:ident, $id:expr, $echo:literal, $covers_ok:literal, $sel:literal) => {
            #[kani::proof]
            #[kani::unwind(12)]
            #[kani::stub(std::backtrace::Backtrace::capture, bt_disabled)]
            #[kani::stub(alloc::fmt::format, fmt_stub)]
            fn $name() {
                let i = any_in();
                let gas: u64 = kani::any();
                let d: u8 = kani::any();
                let junk: u64 = kani::any();
                let eb: u8 = kani::any();
                kani::assume(eb < 128);
                match $sel {
                    0 => reg_inner(["v", "zz"], [d as u64, junk]),
                    _ => reg_inner(["w", "zz"], [d as u64, junk]),
                }
                let ok_outcome = if $sel == 2 { !$covers_ok } else { $covers_ok };
                #[allow(deprecated)]
                let msg = Reply {
                    id: $id,
                    payload: Binary::from(vec![7u8]),
                    gas_used: gas,
                    result: if ok_outcome {
                        SubMsgResult::Ok(SubMsgResponse { events: Vec::new(), data: None, msg_responses: Vec::new() })
                    } else {
                        SubMsgResult::Err(support::env::one_char(eb))
                    },
                };
                let mut w = i.world();
                let res = sv::dispatch_reply(w.deps_mut(), i.env(), msg, Rd::new());
                match $sel {
                    0 => {
                        check_call(&i, &w, $echo, [gas, 1 + d as u64, 0, 0], false, true);
                        assert!(unsafe { FROM_JSON_CALLS } == 1, "the payload was decoded once");
                    }
                    1 => {
                        check_no_call(&w);
                        assert!(res.is_err(), "an undecodable payload is an error");
                    }
                    _ => {
                        check_no_call(&w);
                        if ok_outcome {
                            match &res {
                                Ok(resp) => assert!(resp.data.is_none() && resp.events.is_empty() && resp.messages.is_empty(), "uncovered success: passed through"),
                                Err(_) => assert!(false, "uncovered success is answered as if no reply had been requested"),
                            }
                        } else {
                            match &res {
                                Err(RdErr::Std(sylvia::cw_std::StdError::GenericErr { msg, .. })) => {
                                    assert!(support::sym::str_eq(msg, &support::env::one_char(eb)), "uncovered failure is answered with that error")
                                }
                                _ => assert!(false, "uncovered failure is answered with that error"),
                            }
                        }
                    }
                }
                kani::cover!(true, "cell reached");
                core::mem::forget(res);
            }
        };
    }
    payload_case!(p_ok_good, sv::TP_OK_REPLY_ID, 520, true, 0);
    payload_case!(p_ok_bad, sv::TP_OK_REPLY_ID, 520, true, 1);
    payload_case!(p_ok_uncovered, sv::TP_OK_REPLY_ID, 520, true, 2);
    payload_case!(p_err_good, sv::TP_ERR_REPLY_ID, 530, false, 0);
    payload_case!(p_err_bad, sv::TP_ERR_REPLY_ID, 530, false, 1);
    payload_case!(p_err_uncovered, sv::TP_ERR_REPLY_ID, 530, false, 2);

    // @PLAYBACK h@
}
