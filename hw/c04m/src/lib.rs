//! C04, multitest path: the generated `impl cw_multi_test::Contract` decodes the document sent to
//! operation K2 with the contract-level message of kind K2 only.  `sylvia::cw_std::from_json` is
//! replaced by the façade (feature `mt_docs`): it decodes the serde-doc registered by the harness.
#![allow(clippy::all)]
#![allow(dead_code, unused_imports, unused_mut, static_mut_refs, deprecated)]

#[path = "../../corpus/basic.rs"]
pub mod basic;

#[path = "../../corpus/small.rs"]
pub mod small;

/// Harness bodies as plain functions (`case_*`): run symbolically by the Kani proofs in `h` and, for
/// native replay of a counterexample, concretely by the tests in `native` (Kani's own concrete
/// playback needs a full trace of the multitest-sized program: > 15 min and unreliable; the inputs that
/// matter here -- which message is sent to which operation -- are a handful).
pub mod cases {
    use crate::basic::ct::Ct;
    use crate::small::sm::Sm;
    use support::call::In;
    use support::doc::{num, Msg, Obj, EMPTY0};
    use support::echo;
    use sylvia::cw_multi_test::Contract;
    use sylvia::cw_std::{Empty, DOC_FLAT, DOC_KIND, DOC_M0, DOC_M1, DOC_M2};

    fn reg0(name: &'static str) {
        unsafe {
            DOC_KIND = 0;
            DOC_M0 = Msg { name, body: EMPTY0 };
        }
    }
    fn reg1(name: &'static str, k: &'static str, v: u64) {
        unsafe {
            DOC_KIND = 1;
            DOC_M1 = Msg { name, body: Obj { keys: [k], vals: [num(v)] } };
        }
    }
    fn reg2(name: &'static str, v: [u64; 2]) {
        unsafe {
            DOC_KIND = 2;
            DOC_M2 = Msg { name, body: Obj { keys: ["a", "b"], vals: [num(v[0]), num(v[1])] } };
        }
    }
    fn reg_flat(keys: [&'static str; 2], v: [u64; 2]) {
        unsafe {
            DOC_KIND = 3;
            DOC_FLAT = Obj { keys, vals: [num(v[0]), num(v[1])] };
        }
    }

    #[derive(Clone, Copy, PartialEq)]
    pub enum Kind {
        Inst,
        Migr,
        Exec,
        Query,
        Sudo,
    }

    /// kind of every echo handler id of corpora `small` (9xx) and `basic` (1xx..3xx) -- hand-written
    pub fn kind_of(id: u32) -> Kind {
        match id {
            900 | 100 => Kind::Inst,
            101 => Kind::Migr,
            910 | 911 | 940 | 110..=114 | 210 | 211 | 310 => Kind::Exec,
            920 | 950 | 120 | 121 | 220 | 320 | 321 => Kind::Query,
            _ => Kind::Sudo,
        }
    }

    /// after an operation of kind `k2`: either nothing ran (rejected) or exactly one handler of `k2`
    fn only_kind(k2: Kind, ok: bool) -> (bool, u32) {
        let l = echo::log();
        if ok {
            assert!(l.count == 1, "an accepted message runs exactly one handler");
            assert!(kind_of(l.id) == k2, "only a handler annotated with the operation's kind may run");
        } else {
            assert!(l.count == 0, "a rejected document runs nothing");
        }
        (ok, l.id)
    }

    pub const N_SEL: u8 = 7;

    /// Register the `sel`-th well-formed message of corpus `small` (all kinds).
    fn reg_small(sel: u8, v: u64) {
        match sel {
            0 => reg0("pong"),
            1 => reg1("foo1", "x", v),
            2 => reg1("iafn", "a", v & 0xffff_ffff),
            3 => reg0("getq"),
            4 => reg0("iqfn"),
            5 => reg1("tock", "n", v),
            _ => reg_flat(["", ""], [0, 0]),
        }
    }
    /// ... of corpus `basic`: the wire name `tick{n}` exists as exec (114), sudo (230) and query (321)
    fn reg_basic(sel: u8, v: u64) {
        match sel {
            0 => reg1("tick", "n", v),
            1 => reg0("ping"),
            2 => reg1("tack", "n", v),
            3 => reg0("get"),
            4 => reg1("ib_s", "n", v),
            5 => reg2("foo_bar", [v & 0xffff, v >> 48]),
            _ => reg_flat(["a", "b"], [v & 0xffff, v >> 48]),
        }
    }

    macro_rules! op_case {
        ($name:ident, $reg:ident, $k2:expr, |$w:ident, $i:ident| $call:expr, |$sel:ident, $acc:ident, $id:ident| $oracle:expr) => {
            /// returns whether the document was accepted
            pub fn $name($i: &In, $sel: u8, v: u64) -> bool {
                echo::reset();
                echo::set_ctl($i.ctl);
                $reg($sel, v);
                let mut $w = $i.world();
                let res = $call;
                let ($acc, $id) = only_kind($k2, res.is_ok());
                core::mem::forget(res);
                assert!($oracle, "the operation accepts exactly the messages of its own kind (hand-written table)");
                $acc
            }
        };
    }

    // ---- corpus `small` (NO migrate handler, no migrate override) ----
    op_case!(small_migrate, reg_small, Kind::Migr, |w, i| <Sm as Contract<Empty, Empty>>::migrate(&Sm::new(), w.deps_mut(), i.env(), Vec::new()),
        |sel, acc, id| !acc);
    op_case!(small_sudo, reg_small, Kind::Sudo, |w, i| <Sm as Contract<Empty, Empty>>::sudo(&Sm::new(), w.deps_mut(), i.env(), Vec::new()),
        |sel, acc, id| acc == (sel == 5) && (!acc || id == 930));
    op_case!(small_execute, reg_small, Kind::Exec, |w, i| <Sm as Contract<Empty, Empty>>::execute(&Sm::new(), w.deps_mut(), i.env(), i.info(), Vec::new()),
        |sel, acc, id| acc == (sel <= 2));
    op_case!(small_query, reg_small, Kind::Query, |w, i| <Sm as Contract<Empty, Empty>>::query(&Sm::new(), w.deps(), i.env(), Vec::new()),
        |sel, acc, id| acc == (sel == 3 || sel == 4));
    // ---- corpus `basic` ----
    op_case!(basic_execute, reg_basic, Kind::Exec, |w, i| <Ct as Contract<Empty, Empty>>::execute(&Ct::new(), w.deps_mut(), i.env(), i.info(), Vec::new()),
        |sel, acc, id| acc == (sel == 0 || sel == 1 || sel == 5) && (sel != 0 || id == 114));
    op_case!(basic_sudo, reg_basic, Kind::Sudo, |w, i| <Ct as Contract<Empty, Empty>>::sudo(&Ct::new(), w.deps_mut(), i.env(), Vec::new()),
        |sel, acc, id| acc == (sel == 0 || sel == 2 || sel == 4) && (sel != 0 || id == 230));
    op_case!(basic_query, reg_basic, Kind::Query, |w, i| <Ct as Contract<Empty, Empty>>::query(&Ct::new(), w.deps(), i.env(), Vec::new()),
        |sel, acc, id| acc == (sel == 0 || sel == 3) && (sel != 0 || id == 321));
    op_case!(basic_migrate, reg_basic, Kind::Migr, |w, i| <Ct as Contract<Empty, Empty>>::migrate(&Ct::new(), w.deps_mut(), i.env(), Vec::new()),
        |sel, acc, id| acc == (sel == 6) && (!acc || id == 101));
    op_case!(basic_instantiate, reg_basic, Kind::Inst, |w, i| <Ct as Contract<Empty, Empty>>::instantiate(&Ct::new(), w.deps_mut(), i.env(), i.info(), Vec::new()),
        |sel, acc, id| acc == (sel == 6) && (!acc || id == 100));
}

#[cfg(kani)]
mod h {
    use crate::cases;
    use support::call::any_in;
    use support::stubs::{bt_disabled, fmt_stub, push_str_stub};

    macro_rules! op_harness {
        ($name:ident, $case:ident) => {
            #[kani::proof]
            #[kani::unwind(9)]
            #[kani::stub(std::backtrace::Backtrace::capture, bt_disabled)]
            #[kani::stub(alloc::fmt::format, fmt_stub)]
            #[kani::stub(alloc::string::String::push_str, push_str_stub)]
            fn $name() {
                let i = any_in();
                // "accepted" is observed as `Ok`: the echo handlers must not fail on their own here
                kani::assume(!i.ctl.fail);
                let v: u64 = kani::any();
                let sel: u8 = kani::any();
                kani::assume(sel < cases::N_SEL);
                let acc = cases::$case(&i, sel, v);
                kani::cover!(acc, "an accepted document");
                kani::cover!(!acc, "a rejected document");
            }
        };
    }
    op_harness!(m_small_migrate, small_migrate);
    op_harness!(m_small_sudo, small_sudo);
    op_harness!(m_small_execute, small_execute);
    op_harness!(m_small_query, small_query);
    op_harness!(m_basic_execute, basic_execute);
    op_harness!(m_basic_sudo, basic_sudo);
    op_harness!(m_basic_query, basic_query);
    op_harness!(m_basic_migrate, basic_migrate);
    op_harness!(m_basic_instantiate, basic_instantiate);
}

/// Native replay of the harness bodies over every message choice and a few values (used by the driver
/// when Kani's concrete playback is not available for a failing harness of this crate).
#[cfg(test)]
mod native {
    use crate::cases;
    use support::call::fixed_in;

    macro_rules! replay {
        ($name:ident, $case:ident) => {
            #[test]
            fn $name() {
                for sel in 0..cases::N_SEL {
                    for v in [0u64, 1, 0x0001_0000_0000_0002, u64::MAX] {
                        let i = fixed_in();
                        cases::$case(&i, sel, v);
                    }
                }
            }
        };
    }
    replay!(native_m_small_migrate, small_migrate);
    replay!(native_m_small_sudo, small_sudo);
    replay!(native_m_small_execute, small_execute);
    replay!(native_m_small_query, small_query);
    replay!(native_m_basic_execute, basic_execute);
    replay!(native_m_basic_sudo, basic_sudo);
    replay!(native_m_basic_query, basic_query);
    replay!(native_m_basic_migrate, basic_migrate);
    replay!(native_m_basic_instantiate, basic_instantiate);
}
