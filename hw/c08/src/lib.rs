//! C08 — sub-message builders and reply dispatch agree on id, trigger and payload.
#![allow(clippy::all)]
#![allow(dead_code, unused_imports, unused_mut, static_mut_refs, deprecated)]

#[path = "../../corpus/replies.rs"]
pub mod replies;

#[path = "../../corpus/typed.rs"]
pub mod typed;

#[cfg(kani)]
#[path = "../../corpus/replies_h.rs"]
pub mod replies_h;

#[cfg(kani)]
mod h {
    use crate::replies::rp::sv::{self, SubMsgMethods};
    use crate::replies::rp::Rp;
    use crate::replies_h::*;
    use crate::typed::tp::sv as tsv;
    use support::call::any_in;
    use support::env::one_char;
    use support::stubs::{bt_disabled, fmt_stub};
    use support::sym::{bytes_eq, str_eq};
    use sylvia::cw_std::{BankMsg, Binary, Coin, CosmosMsg, Empty, ReplyOn, StdResult, SubMsg, Uint128, WasmMsg};

    /// Trigger a builder must request = exactly the outcomes that have a method in the table.
    fn expected_reply_on(k: usize) -> ReplyOn {
        let s = !matches!(TABLE[k].0, OnOk::Pass);
        let e = !matches!(TABLE[k].1, OnErr::Pass);
        match (s, e) {
            (true, true) => ReplyOn::Always,
            (true, false) => ReplyOn::Success,
            (false, true) => ReplyOn::Error,
            (false, false) => ReplyOn::Never,
        }
    }

    fn ro_eq(a: &ReplyOn, b: &ReplyOn) -> bool {
        matches!(
            (a, b),
            (ReplyOn::Always, ReplyOn::Always)
                | (ReplyOn::Success, ReplyOn::Success)
                | (ReplyOn::Error, ReplyOn::Error)
                | (ReplyOn::Never, ReplyOn::Never)
        )
    }

    fn any_reply_on() -> ReplyOn {
        let k: u8 = kani::any();
        kani::assume(k < 4);
        match k {
            0 => ReplyOn::Always,
            1 => ReplyOn::Success,
            2 => ReplyOn::Error,
            _ => ReplyOn::Never,
        }
    }

    /// Call the builder for the k-th handler name of the table.
    fn build<T: SubMsgMethods<Empty>>(recv: T, k: usize, p: Binary) -> StdResult<SubMsg<Empty>> {
        match k {
            0 => recv.on_succ(p),
            1 => recv.on_err(p),
            2 => recv.both(p),
            3 => recv.rev(p),
            4 => recv.alw(p),
            5 => recv.h_a(p),
            6 => recv.h_b(p),
            7 => recv.raw_data(p),
            _ => recv.raw_opt(p),
        }
    }

    fn check_common(out: &SubMsg<Empty>, k: usize, p: &[u8; 3]) {
        assert!(out.id == KNOWN[k], "builder stamps the id of its handler name");
        assert!(ro_eq(&out.reply_on, &expected_reply_on(k)), "reply requested for exactly the outcomes that have a method");
        assert!(bytes_eq(out.payload.as_slice(), p), "raw payload byte for byte");
    }

    /// (i) existing sub-message: message and gas limit kept, id / reply_on / payload overwritten.
    #[kani::proof]
    #[kani::unwind(6)]
    #[kani::stub(std::backtrace::Backtrace::capture, bt_disabled)]
    #[kani::stub(alloc::fmt::format, fmt_stub)]
    fn b_submsg() {
        let k: usize = kani::any();
        kani::assume(k < 9);
        let addr: u8 = kani::any();
        kani::assume(addr < 128);
        let gas: Option<u64> = if kani::any() { Some(kani::any()) } else { None };
        let p: [u8; 3] = kani::any();
        let base = SubMsg::<Empty> {
            id: kani::any(),
            msg: CosmosMsg::Wasm(WasmMsg::ClearAdmin { contract_addr: one_char(addr) }),
            gas_limit: gas,
            reply_on: any_reply_on(),
            payload: Binary::from(vec![kani::any::<u8>()]),
        };
        let out = build(base, k, Binary::from(p.to_vec()));
        match &out {
            Ok(o) => {
                check_common(o, k, &p);
                assert!(o.gas_limit == gas, "gas limit of an existing sub-message intact");
                match &o.msg {
                    CosmosMsg::Wasm(WasmMsg::ClearAdmin { contract_addr }) => {
                        assert!(str_eq(contract_addr, &one_char(addr)), "wrapped message kept")
                    }
                    _ => assert!(false, "wrapped message kept"),
                }
                kani::cover!(k == 0, "on_succ");
                kani::cover!(k == 8, "raw_opt");
                kani::cover!(gas.is_some(), "gas limit present");
            }
            Err(_) => assert!(false, "raw payload builders cannot fail"),
        }
        core::mem::forget(out);
    }

    /// (ii) wasm message: wrapped as-is, no gas limit.
    #[kani::proof]
    #[kani::unwind(6)]
    #[kani::stub(std::backtrace::Backtrace::capture, bt_disabled)]
    #[kani::stub(alloc::fmt::format, fmt_stub)]
    fn b_wasm() {
        let k: usize = kani::any();
        kani::assume(k < 9);
        let addr: u8 = kani::any();
        kani::assume(addr < 128);
        let body: u8 = kani::any();
        let amount: Option<u128> = if kani::any() { Some(kani::any()) } else { None };
        let p: [u8; 3] = kani::any();
        let base = WasmMsg::Execute {
            contract_addr: one_char(addr),
            msg: Binary::from(vec![body]),
            funds: match amount {
                Some(a) => vec![Coin { denom: String::new(), amount: Uint128::new(a) }],
                None => Vec::new(),
            },
        };
        let out = build(base, k, Binary::from(p.to_vec()));
        match &out {
            Ok(o) => {
                check_common(o, k, &p);
                assert!(o.gas_limit.is_none(), "no gas limit for a fresh message");
                match &o.msg {
                    CosmosMsg::Wasm(WasmMsg::Execute { contract_addr, msg, funds }) => {
                        assert!(str_eq(contract_addr, &one_char(addr)));
                        assert!(bytes_eq(msg.as_slice(), &[body]));
                        assert!(funds.len() == if amount.is_some() { 1 } else { 0 });
                        if let Some(a) = amount {
                            assert!(funds[0].amount.u128() == a);
                        }
                    }
                    _ => assert!(false, "wrapped message kept"),
                }
                kani::cover!(k == 4 && amount.is_some(), "alw with funds");
            }
            Err(_) => assert!(false, "raw payload builders cannot fail"),
        }
        core::mem::forget(out);
    }

    /// (iii) cosmos message.
    #[kani::proof]
    #[kani::unwind(6)]
    #[kani::stub(std::backtrace::Backtrace::capture, bt_disabled)]
    #[kani::stub(alloc::fmt::format, fmt_stub)]
    fn b_cosmos() {
        let k: usize = kani::any();
        kani::assume(k < 9);
        let amount: Option<u128> = if kani::any() { Some(kani::any()) } else { None };
        let p: [u8; 3] = kani::any();
        let base: CosmosMsg<Empty> = CosmosMsg::Bank(BankMsg::Burn {
            amount: match amount {
                Some(a) => vec![Coin { denom: String::new(), amount: Uint128::new(a) }],
                None => Vec::new(),
            },
        });
        let out = build(base, k, Binary::from(p.to_vec()));
        match &out {
            Ok(o) => {
                check_common(o, k, &p);
                assert!(o.gas_limit.is_none());
                match &o.msg {
                    CosmosMsg::Bank(BankMsg::Burn { amount: am }) => {
                        assert!(am.len() == if amount.is_some() { 1 } else { 0 });
                        if let Some(a) = amount {
                            assert!(am[0].amount.u128() == a);
                        }
                    }
                    _ => assert!(false, "wrapped message kept"),
                }
                kani::cover!(k == 2 && amount.is_some(), "both with a coin");
            }
            Err(_) => assert!(false, "raw payload builders cannot fail"),
        }
        core::mem::forget(out);
    }

    /// Distinct handler names get distinct ids, and an EMPTY raw payload stays empty.
    #[kani::proof]
    #[kani::unwind(6)]
    #[kani::stub(std::backtrace::Backtrace::capture, bt_disabled)]
    #[kani::stub(alloc::fmt::format, fmt_stub)]
    fn b_ids_and_empty_payload() {
        let a: usize = kani::any();
        let b: usize = kani::any();
        kani::assume(a < 9 && b < 9 && a != b);
        assert!(KNOWN[a] != KNOWN[b], "distinct reply handler names get distinct ids");
        let k: usize = kani::any();
        kani::assume(k < 9);
        let base = WasmMsg::ClearAdmin { contract_addr: String::new() };
        let out = build(base, k, Binary::default());
        match &out {
            Ok(o) => {
                assert!(o.id == KNOWN[k] && o.payload.as_slice().is_empty(), "empty raw payload stays empty");
                assert!(ro_eq(&o.reply_on, &expected_reply_on(k)));
            }
            Err(_) => assert!(false),
        }
        kani::cover!(k == 3);
        core::mem::forget(out);
    }

    /// Round trip: what the builder of name k produced (id, payload) is fed to the real dispatcher;
    /// the handler the table names for the outcome must see the same 3 payload bytes.
    macro_rules! round_trip {
        ($name:ident, $k:literal) => {
            #[kani::proof]
            #[kani::unwind(6)]
            #[kani::stub(std::backtrace::Backtrace::capture, bt_disabled)]
            #[kani::stub(alloc::fmt::format, fmt_stub)]
            fn $name() {
                let i = any_in();
                let r = any_rin::<1, 3>();
                let base = WasmMsg::ClearAdmin { contract_addr: String::new() };
                let out = build(base, $k, Binary::from(r.pb.to_vec()));
                let sub = match out {
                    Ok(s) => s,
                    Err(_) => {
                        assert!(false, "raw payload builders cannot fail");
                        return;
                    }
                };
                let id = sub.id;
                let payload = sub.payload.clone();
                core::mem::forget(sub);
                let mut w = i.world();
                let res = sv::dispatch_reply(w.deps_mut(), i.env(), mk_reply_with(id, &r, payload), Rp::new());
                check_reply(&i, &w, &r, &res, TABLE[$k].0, TABLE[$k].1);
                core::mem::forget(res);
            }
        };
    }
    round_trip!(rt_on_succ, 0);
    round_trip!(rt_on_err, 1);
    round_trip!(rt_both, 2);
    round_trip!(rt_rev, 3);
    round_trip!(rt_alw, 4);
    round_trip!(rt_h_a, 5);
    round_trip!(rt_h_b, 6);
    round_trip!(rt_raw_data, 7);
    round_trip!(rt_raw_opt, 8);

    /// Typed payloads, builder side only: payload bytes are the JSON of the argument tuple
    /// (one value: the value itself; several: an array), for one-digit values.
    #[kani::proof]
    #[kani::unwind(8)]
    #[kani::stub(std::backtrace::Backtrace::capture, bt_disabled)]
    #[kani::stub(alloc::fmt::format, fmt_stub)]
    fn b_typed() {
        use tsv::SubMsgMethods as T;
        let x: u8 = kani::any();
        let y: u8 = kani::any();
        kani::assume(x <= 9 && y <= 9);
        let two: bool = kani::any();
        let named: bool = kani::any();
        let base = WasmMsg::ClearAdmin { contract_addr: String::new() };
        if named {
            // payload parameters called `id` and `reply_on`: still the caller's values, on every receiver
            let out: StdResult<SubMsg<Empty>> = if two {
                T::nm(base, x, y)
            } else {
                T::nm(SubMsg::<Empty>::new(base), x, y)
            };
            match &out {
                Ok(o) => {
                    let b = o.payload.as_slice();
                    assert!(o.id == tsv::NM_REPLY_ID && ro_eq(&o.reply_on, &ReplyOn::Error));
                    assert!(b.len() == 5 && b[0] == b'[' && b[1] == b'0' + x && b[2] == b',' && b[3] == b'0' + y && b[4] == b']',
                        "payload arguments are encoded by VALUE whatever the parameters are called");
                }
                Err(_) => assert!(false),
            }
            kani::cover!(two, "named parameters, wasm receiver");
            kani::cover!(!two, "named parameters, sub-message receiver");
            core::mem::forget(out);
            return;
        }
        let out: StdResult<SubMsg<Empty>> = if two { T::two(base, x, y) } else { T::one(base, x) };
        match &out {
            Ok(o) => {
                let b = o.payload.as_slice();
                if two {
                    assert!(o.id == tsv::TWO_REPLY_ID);
                    assert!(ro_eq(&o.reply_on, &ReplyOn::Success));
                    assert!(b.len() == 5 && b[0] == b'[' && b[1] == b'0' + x && b[2] == b',' && b[3] == b'0' + y && b[4] == b']',
                        "several typed values are encoded as a JSON array");
                } else {
                    assert!(o.id == tsv::ONE_REPLY_ID);
                    assert!(ro_eq(&o.reply_on, &ReplyOn::Always));
                    assert!(b.len() == 1 && b[0] == b'0' + x, "one typed value is encoded as itself");
                }
                assert!(tsv::ONE_REPLY_ID != tsv::TWO_REPLY_ID);
                kani::cover!(two && !named, "two typed values");
                kani::cover!(!two && !named, "one typed value");
            }
            Err(_) => assert!(false, "encoding small integers cannot fail"),
        }
        core::mem::forget(out);
    }

    // @PLAYBACK h@
}
