//! C09 — reply data is extracted according to the declared data mode.
//! Decided here: the raw modes (`raw`, `raw, opt`) and the absent marker; the four typed modes put
//! `cw_utils::parse_*_response_data` + `from_json` on the path and are outside the claim (DESIGN P18).
#![allow(clippy::all)]
#![allow(dead_code, unused_imports, unused_mut, static_mut_refs, deprecated)]

#[path = "../../corpus/replies.rs"]
pub mod replies;

#[cfg(kani)]
#[path = "../../corpus/replies_h.rs"]
pub mod replies_h;

#[cfg(kani)]
mod h {
    use crate::replies::rp::sv;
    use crate::replies_h::*;
    use support::stubs::{bt_disabled, fmt_stub};

    /// (mode, data length) instances: data absent / present with DL symbolic bytes.
    macro_rules! case {
        ($name:ident, $k:literal, $id:expr, $dl:literal) => {
            #[kani::proof]
            #[kani::unwind(6)]
            #[kani::stub(std::backtrace::Backtrace::capture, bt_disabled)]
            #[kani::stub(alloc::fmt::format, fmt_stub)]
            fn $name() {
                assert!(KNOWN[$k] == $id);
                reply_case::<$dl, 1>($id, TABLE[$k].0, TABLE[$k].1);
            }
        };
    }

    // #[sv::data(raw)]: bytes through unchanged; absent -> error, handler not invoked
    case!(d_raw_1, 7, sv::RAW_DATA_REPLY_ID, 1);
    case!(d_raw_3, 7, sv::RAW_DATA_REPLY_ID, 3);
    // #[sv::data(raw, opt)]: bytes through unchanged; absent -> None
    case!(d_raw_opt_1, 8, sv::RAW_OPT_REPLY_ID, 1);
    case!(d_raw_opt_3, 8, sv::RAW_OPT_REPLY_ID, 3);
    // raw, opt on a success method merged with an error method under one name
    case!(d_both_3, 2, sv::BOTH_REPLY_ID, 3);
    // no marker: the first parameter after the context is payload, data is ignored
    case!(d_nomarker_3, 0, sv::ON_SUCC_REPLY_ID, 3);
    // empty data (present, zero bytes) is still "present"
    case!(d_raw_0, 7, sv::RAW_DATA_REPLY_ID, 0);
    case!(d_raw_opt_0, 8, sv::RAW_OPT_REPLY_ID, 0);

    // @PLAYBACK h@
}
