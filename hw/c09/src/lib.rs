//! C09 — reply data is extracted according to the declared data mode.
//! Decided here: the raw modes (`raw`, `raw, opt`) and the absent marker; the four typed modes put
//! `cw_utils::parse_*_response_data` + `from_json` on the path and are outside the claim (DESIGN P18).
#![allow(clippy::all)]
#![allow(dead_code, unused_imports, unused_mut, static_mut_refs, deprecated)]

#[path = "../../corpus/replies.rs"]
pub mod replies;

#[path = "../../corpus/replies_inst.rs"]
pub mod replies_inst;

#[cfg(kani)]
#[path = "../../corpus/replies_h.rs"]
pub mod replies_h;

#[cfg(kani)]
mod h {
    use crate::replies::rp::sv;
    use crate::replies_h::*;
    use support::stubs::{bt_disabled, fmt_stub};

    /// (mode, data length) instances: data absent / present with DL symbolic bytes.
    macro_rules! case {
        ($name:ident, $k:literal, $id:expr, $dl:literal) => {
            #[kani::proof]
            #[kani::unwind(6)]
            #[kani::stub(std::backtrace::Backtrace::capture, bt_disabled)]
            #[kani::stub(alloc::fmt::format, fmt_stub)]
            fn $name() {
                assert!(KNOWN[$k] == $id);
                reply_case::<$dl, 1>($id, TABLE[$k].0, TABLE[$k].1);
            }
        };
    }

    // #[sv::data(raw)]: bytes through unchanged; absent -> error, handler not invoked
    case!(d_raw_1, 7, sv::RAW_DATA_REPLY_ID, 1);
    case!(d_raw_3, 7, sv::RAW_DATA_REPLY_ID, 3);
    // #[sv::data(raw, opt)]: bytes through unchanged; absent -> None
    case!(d_raw_opt_1, 8, sv::RAW_OPT_REPLY_ID, 1);
    case!(d_raw_opt_3, 8, sv::RAW_OPT_REPLY_ID, 3);
    // raw, opt on a success method merged with an error method under one name
    case!(d_both_3, 2, sv::BOTH_REPLY_ID, 3);
    // no marker: the first parameter after the context is payload, data is ignored
    case!(d_nomarker_3, 0, sv::ON_SUCC_REPLY_ID, 3);
    // empty data (present, zero bytes) is still "present"
    case!(d_raw_0, 7, sv::RAW_DATA_REPLY_ID, 0);
    case!(d_raw_opt_0, 8, sv::RAW_OPT_REPLY_ID, 0);

    // ---- instantiate modes (envelope decoding, no JSON) -------------------------------------------
    use crate::replies_inst::ri::{sv as isv, Ri};
    use crate::replies_inst::RiErr;
    use support::call::{any_in, check_call, check_no_call};
    use sylvia::cw_std::{Binary, Reply, SubMsgResponse, SubMsgResult};

    /// Reference for tiny envelopes, written from the protobuf wire format (NOT from cw-utils' code):
    /// field 1 (contract address, length-delimited), optional field 2 (data).  Returns the address
    /// bytes (len, first byte) when `d` is a well-formed instantiate response, else None.
    fn envelope_ref<const L: usize>(d: &[u8; L]) -> Option<(u64, u64)> {
        // tag byte: field number 1 (bits 3..), wire type 2 (the decoder looks at the two low bits)
        if L < 2 || (d[0] >> 3) != 1 || (d[0] & 0b11) != 2 {
            return None;
        }
        if L == 2 {
            // tag, length 0: empty address, nothing else
            return if d[1] == 0 { Some((0, 0)) } else { None };
        }
        // L == 3
        if d[1] == 1 && d[2] < 0x80 {
            return Some((1, d[2] as u64)); // one-byte (ASCII) address
        }
        if d[1] == 0x80 && d[2] == 0 {
            return Some((0, 0)); // two-byte varint encoding of length 0
        }
        None
    }

    /// data absent (`$dl` = 0 means: no data at all) or `$dl` symbolic bytes
    macro_rules! inst_case {
        ($name:ident, $id:expr, $echo:literal, $opt:literal, $dl:literal) => {
            #[kani::proof]
            #[kani::unwind(12)]
            #[kani::stub(std::backtrace::Backtrace::capture, bt_disabled)]
            #[kani::stub(alloc::fmt::format, fmt_stub)]
            fn $name() {
                let i = any_in();
                let gas: u64 = kani::any();
                let d: [u8; $dl] = kani::any();
                let present = $dl > 0;
                #[allow(deprecated)]
                let msg = Reply {
                    id: $id,
                    payload: Binary::from(vec![7u8]),
                    gas_used: gas,
                    result: SubMsgResult::Ok(SubMsgResponse {
                        events: Vec::new(),
                        data: if present { Some(Binary::from(d.to_vec())) } else { None },
                        msg_responses: Vec::new(),
                    }),
                };
                let mut w = i.world();
                let res = isv::dispatch_reply(w.deps_mut(), i.env(), msg, Ri::new());
                let want = if present { envelope_ref(&d) } else { None };
                match (present, want) {
                    (true, Some((alen, a0))) => {
                        // well-formed: the handler gets the decoded envelope
                        check_call(&i, &w, $echo, [gas, 1 + alen * 256 + a0, 0, 1], false, true);
                        kani::cover!(alen == 1, "one-byte address decoded");
                        kani::cover!(alen == 0, "empty address decoded");
                    }
                    (true, None) => {
                        // undecodable data always fails with an error WITHOUT invoking the handler
                        check_no_call(&w);
                        assert!(res.is_err(), "malformed envelope => error (also for the optional mode)");
                        kani::cover!(true, "malformed envelope");
                    }
                    (false, _) => {
                        if $opt {
                            check_call(&i, &w, $echo, [gas, 0, 0, 1], false, true);
                            kani::cover!(true, "missing data => None");
                        } else {
                            check_no_call(&w);
                            assert!(res.is_err(), "missing data => error for the mandatory mode");
                            kani::cover!(true, "missing data => error");
                        }
                    }
                }
                core::mem::forget(res);
            }
        };
    }
    inst_case!(i_ins_absent, isv::INS_REPLY_ID, 480, false, 0);
    inst_case!(i_ins_2, isv::INS_REPLY_ID, 480, false, 2);
    inst_case!(i_ins_3, isv::INS_REPLY_ID, 480, false, 3);
    inst_case!(i_ins_opt_absent, isv::INS_OPT_REPLY_ID, 490, true, 0);
    inst_case!(i_ins_opt_2, isv::INS_OPT_REPLY_ID, 490, true, 2);
    inst_case!(i_ins_opt_3, isv::INS_OPT_REPLY_ID, 490, true, 3);

    // @PLAYBACK h@
}
