//! C15 — generated message types carry exactly the generic parameters they use.
#![allow(clippy::all)]
#![allow(dead_code, unused_imports, unused_mut, static_mut_refs, deprecated)]

#[path = "../../corpus/generic.rs"]
pub mod generic;

#[path = "../../corpus/generic_paths.rs"]
pub mod generic_paths;

use generic::{Digit, N64};

/// The concrete instantiation used by the harnesses (U = (), deliberately something that is neither
/// serialisable-by-need nor used).
pub type G = generic::gc::Gc<N64, u32, u8, Digit, (), u64>;

/// ORACLE (hand-written) as a compile gate, also checked natively: each generated message type can be
/// NAMED with just the parameters it uses -- not more, not fewer, each once, in declaration order.
pub mod named {
    use crate::generic::gc::sv;
    use crate::generic::ifg::sv as ifg;
    use crate::generic::{Digit, N64};
    pub type Exec = sv::ExecMsg<N64, u32, u8>;
    pub type Query = sv::QueryMsg<Digit>;
    pub type Sudo = sv::SudoMsg<u64>;
    pub type Inst = sv::InstantiateMsg;
    pub type Migr = sv::MigrateMsg<u64>;
    pub type IfgExec = ifg::IfgExecMsg<u32>;
    pub type IfgQuery = ifg::IfgQueryMsg<Digit>;
    /// parameter used only through `resp=P` / only in a query argument (second generic contract)
    pub type GsQuery = crate::generic::gs::sv::QueryMsg<Digit, u32>;
    pub type GsInst = crate::generic::gs::sv::InstantiateMsg;
    pub fn gs_constructible() -> (GsQuery, GsQuery) {
        (GsQuery::Value {}, GsQuery::Other { q: 7u32 })
    }

    /// parameters that reach the signatures only through multi-segment paths (third generic contract)
    pub type GpExec = crate::generic_paths::gp::sv::ExecMsg<u32>;
    pub type GpSudo = crate::generic_paths::gp::sv::SudoMsg<u8>;
    pub type GpQuery = crate::generic_paths::gp::sv::QueryMsg<u32>;
    pub type GpInst = crate::generic_paths::gp::sv::InstantiateMsg;
    pub type Gp = crate::generic_paths::gp::Gp<u32, u8, (), u32>;
    pub fn gp_constructible() -> (GpExec, GpExec, GpSudo, GpQuery, GpInst) {
        use crate::generic_paths::gp::Wrap;
        (GpExec::Pv { v: vec![7u32] }, GpExec::Pn { n: 1 }, GpSudo::Po { o: Some(3u8) }, GpQuery::Pq { k: Wrap { w: 9u32 } }, GpInst {})
    }
    pub fn gp_same_as_api() {
        use sylvia::types::ContractApi;
        fn same<T>(_: Option<T>, _: Option<T>) {}
        same::<GpExec>(None, None::<<Gp as ContractApi>::Exec>);
        same::<GpSudo>(None, None::<<Gp as ContractApi>::Sudo>);
        same::<GpQuery>(None, None::<<Gp as ContractApi>::Query>);
        same::<GpInst>(None, None::<<Gp as ContractApi>::Instantiate>);
    }

    /// ... and they are the types the contract's API aliases resolve to.
    pub fn same_as_api() {
        use sylvia::types::ContractApi;
        fn same<T>(_: Option<T>, _: Option<T>) {}
        same::<Exec>(None, None::<<crate::G as ContractApi>::Exec>);
        same::<Query>(None, None::<<crate::G as ContractApi>::Query>);
        same::<Sudo>(None, None::<<crate::G as ContractApi>::Sudo>);
        same::<Inst>(None, None::<<crate::G as ContractApi>::Instantiate>);
        same::<Migr>(None, None::<<crate::G as ContractApi>::Migrate>);
    }
}

#[cfg(kani)]
#[path = "../../corpus/basic_names_h.rs"]
pub mod basic_names_h;

#[cfg(kani)]
mod h {
    use crate::basic_names_h::{accepted, any_name, as_str};
    use crate::generic::gn::ifn::sv::{IfnExecMsg, IfnQueryMsg};
    use crate::generic::gn::sv as tw;
    use crate::generic::gn::Gn;
    use crate::generic::{Digit, GLOG, N64};
    use crate::named::{Exec, IfgExec, IfgQuery, Inst, Migr, Query, Sudo};
    use crate::G;
    use support::call::any_in;
    use support::doc::{decode, num, Msg, Obj, E, EMPTY0};
    use support::rec::{rec_eq, record};
    use support::stubs::{bt_disabled, fmt_stub};

    /// Wire format of the generic types == wire format of the non-generic twin (symbolic values).
    #[kani::proof]
    #[kani::unwind(9)]
    fn ser_like_twin() {
        let x: u64 = kani::any();
        let sel: u8 = kani::any();
        kani::assume(sel < 10);
        let (g, t) = match sel {
            0 => (record(&Exec::Ga { a: N64(x) }), record(&tw::ExecMsg::Ga { a: N64(x) })),
            1 => (record(&Exec::Gb { b: Some(x as u32) }), record(&tw::ExecMsg::Gb { b: Some(x as u32) })),
            2 => (record(&Exec::Gb { b: None }), record(&tw::ExecMsg::Gb { b: None })),
            3 => (record(&Exec::Gv { v: vec![x as u8] }), record(&tw::ExecMsg::Gv { v: vec![x as u8] })),
            4 => (record(&Query::Gr {}), record(&tw::QueryMsg::Gr {})),
            5 => (record(&Sudo::Gw { w: x }), record(&tw::SudoMsg::Gw { w: x })),
            6 => (record(&IfgExec::Ig { t: x as u32 }), record(&IfnExecMsg::Ig { t: x as u32 })),
            7 => (record(&Migr { w: x }), record(&tw::MigrateMsg { w: x })),
            9 => (record(&Exec::Gz { z: N64(x) }), record(&tw::ExecMsg::Gz { z: N64(x) })),
            _ => (record(&Inst {}), record(&tw::InstantiateMsg {})),
        };
        match (&g, &t) {
            (Ok(g), Ok(t)) => assert!(rec_eq(g, t), "a generic message type, once instantiated, encodes like the non-generic case"),
            _ => assert!(false),
        }
        kani::cover!(sel == 3, "parameter used only inside Vec");
        kani::cover!(sel == 2, "parameter used only inside Option");
    }

    /// Received names: same accepted set as the twin; the phantom placeholder is never accepted.
    #[kani::proof]
    #[kani::unwind(11)]
    fn names_like_twin() {
        let b = any_name::<2>();
        let s = as_str(&b);
        assert!(accepted::<Exec>(s) == accepted::<tw::ExecMsg>(s));
        assert!(accepted::<Query>(s) == accepted::<tw::QueryMsg>(s));
        assert!(accepted::<Sudo>(s) == accepted::<tw::SudoMsg>(s));
        assert!(accepted::<IfgExec>(s) == accepted::<IfnExecMsg>(s));
        assert!(accepted::<IfgQuery>(s) == accepted::<IfnQueryMsg>(s));
        assert!(!accepted::<Exec>("_phantom") && !accepted::<Exec>("__phantom") && !accepted::<Query>("_phantom") && !accepted::<Sudo>("_phantom"));
        assert!(!accepted::<Query>("__phantom") && !accepted::<Sudo>("__phantom"));
        // the interface messages carry their own placeholder variant (a different code site)
        assert!(!accepted::<IfgExec>("_phantom") && !accepted::<IfgExec>("__phantom"), "placeholder of the interface message is not a message");
        assert!(!accepted::<IfgQuery>("_phantom") && !accepted::<IfgQuery>("__phantom"), "placeholder of the interface message is not a message");
        kani::cover!(accepted::<Exec>(s));
        kani::cover!(!accepted::<Exec>(s));
    }

    /// Parameters reaching the signatures only through multi-segment paths: the types named with
    /// exactly those parameters accept exactly their methods' names and encode as usual.
    #[kani::proof]
    #[kani::unwind(11)]
    fn multi_segment_paths() {
        use crate::named::{GpExec, GpQuery, GpSudo};
        use support::rec::{K_FIELD, K_STRUCT_VARIANT, K_U64};
        use crate::basic_names_h::in_list;
        use support::sym::str_eq;
        let b = any_name::<2>();
        let s = as_str(&b);
        assert!(accepted::<GpExec>(s) == in_list(s, &["pn", "pv"]));
        assert!(accepted::<GpSudo>(s) == in_list(s, &["po"]));
        assert!(accepted::<GpQuery>(s) == in_list(s, &["pq"]));
        let x: u64 = kani::any();
        match (record(&GpExec::Pn { n: x }), record(&GpSudo::Po { o: Some(x as u8) })) {
            (Ok(e), Ok(u)) => {
                assert!(e.ev[0].k == K_STRUCT_VARIANT && str_eq(e.ev[0].s, "pn") && e.ev[1].k == K_FIELD && str_eq(e.ev[1].s, "n") && e.ev[2].k == K_U64 && e.ev[2].num == x);
                assert!(u.ev[0].k == K_STRUCT_VARIANT && str_eq(u.ev[0].s, "po") && u.ev[1].k == K_FIELD && str_eq(u.ev[1].s, "o"));
            }
            _ => assert!(false),
        }
        kani::cover!(accepted::<GpExec>(s));
    }

    /// Decoding: same verdict and same value as the twin for {ga:{a}}, {gb:{b}}, {gb:{}}, {gw:{w}}.
    #[kani::proof]
    #[kani::unwind(9)]
    fn decode_like_twin() {
        let x: u64 = kani::any();
        let sel: u8 = kani::any();
        kani::assume(sel < 4);
        macro_rules! both {
            ($g:ty, $t:ty, $doc:expr) => {{
                let d = $doc;
                let g: Result<$g, E> = decode(d);
                let t: Result<$t, E> = decode(d);
                let same = match (&g, &t) {
                    (Ok(g), Ok(t)) => match (record(g), record(t)) {
                        (Ok(a), Ok(b)) => rec_eq(&a, &b),
                        _ => false,
                    },
                    (Err(_), Err(_)) => true,
                    _ => false,
                };
                let ok = g.is_ok();
                core::mem::forget((g, t));
                (same, ok)
            }};
        }
        let (same, ok) = match sel {
            0 => both!(Exec, tw::ExecMsg, Msg { name: "ga", body: Obj { keys: ["a"], vals: [num(x)] } }),
            1 => both!(Exec, tw::ExecMsg, Msg { name: "gb", body: Obj { keys: ["b"], vals: [num(x)] } }),
            2 => both!(Exec, tw::ExecMsg, Msg { name: "gb", body: EMPTY0 }),
            _ => both!(Sudo, tw::SudoMsg, Msg { name: "gw", body: Obj { keys: ["w"], vals: [num(x)] } }),
        };
        assert!(same, "decodes like the non-generic case");
        kani::cover!(sel == 1 && !ok, "Option<u32> field out of range: rejected by both");
        kani::cover!(sel == 2 && ok, "Option field absent: accepted by both");
    }

    /// Dispatch: the instantiated generic contract runs the same handler with the same value as the twin.
    #[kani::proof]
    #[kani::unwind(9)]
    #[kani::stub(std::backtrace::Backtrace::capture, bt_disabled)]
    #[kani::stub(alloc::fmt::format, fmt_stub)]
    fn dispatch_like_twin() {
        use crate::generic::gc::sv as gsv;
        let i = any_in();
        let x: u64 = kani::any();
        let sel: u8 = kani::any();
        kani::assume(sel < 6);
        let mut w = i.world();
        unsafe {
            GLOG = (0, 0, 0);
        }
        match sel {
            0 => core::mem::forget(Exec::Ga { a: N64(x) }.dispatch(&G::new(), (w.deps_mut(), i.env(), i.info()))),
            1 => core::mem::forget(Exec::Gb { b: if x & 1 == 1 { Some((x >> 1) as u32) } else { None } }.dispatch(&G::new(), (w.deps_mut(), i.env(), i.info()))),
            2 => core::mem::forget(Exec::Gv { v: vec![x as u8] }.dispatch(&G::new(), (w.deps_mut(), i.env(), i.info()))),
            3 => core::mem::forget(Sudo::Gw { w: x }.dispatch(&G::new(), (w.deps_mut(), i.env()))),
            4 => core::mem::forget(gsv::ContractExecMsg::<N64, u32, u8, Digit, (), u64>::Ifg(IfgExec::Ig { t: x as u32 }).dispatch(&G::new(), (w.deps_mut(), i.env(), i.info()))),
            _ => core::mem::forget(Inst {}.dispatch(&G::new(), (w.deps_mut(), i.env(), i.info()))),
        }
        let g = unsafe { GLOG };
        unsafe {
            GLOG = (0, 0, 0);
        }
        match sel {
            0 => core::mem::forget(tw::ExecMsg::Ga { a: N64(x) }.dispatch(&Gn::new(), (w.deps_mut(), i.env(), i.info()))),
            1 => core::mem::forget(tw::ExecMsg::Gb { b: if x & 1 == 1 { Some((x >> 1) as u32) } else { None } }.dispatch(&Gn::new(), (w.deps_mut(), i.env(), i.info()))),
            2 => core::mem::forget(tw::ExecMsg::Gv { v: vec![x as u8] }.dispatch(&Gn::new(), (w.deps_mut(), i.env(), i.info()))),
            3 => core::mem::forget(tw::SudoMsg::Gw { w: x }.dispatch(&Gn::new(), (w.deps_mut(), i.env()))),
            4 => core::mem::forget(tw::ContractExecMsg::Ifn(IfnExecMsg::Ig { t: x as u32 }).dispatch(&Gn::new(), (w.deps_mut(), i.env(), i.info()))),
            _ => core::mem::forget(tw::InstantiateMsg {}.dispatch(&Gn::new(), (w.deps_mut(), i.env(), i.info()))),
        }
        let t = unsafe { GLOG };
        assert!(g.2 == 1 && t.2 == 1, "exactly one handler each");
        assert!(g.0 == t.0 && g.1 == t.1, "same handler, same value as the non-generic case");
        let want = match sel { 0 => 601, 1 => 602, 2 => 603, 3 => 605, 4 => 611, _ => 600 };
        assert!(g.0 == want);
        kani::cover!(sel == 4, "interface with associated type through the generic contract");
        kani::cover!(sel == 1 && x & 1 == 0, "None");
    }

    // @PLAYBACK h@
}
