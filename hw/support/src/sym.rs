//! Symbolic strings of *concrete* length (DESIGN §1, P19: symbolic lengths are never used).

/// View a byte array that the harness constrained to ASCII as `&str`.
#[inline(always)]
pub fn ascii<const N: usize>(b: &[u8; N]) -> &str {
    // SAFETY: callers constrain every byte to ASCII (`is_name_byte` / `is_lower`), checked by
    // the debug assertion below which is part of the encoded program.
    let mut i = 0;
    while i < N {
        assert!(b[i] < 128);
        i += 1;
    }
    unsafe { core::str::from_utf8_unchecked(b) }
}

#[inline(always)]
pub fn is_lower(c: u8) -> bool {
    c >= b'a' && c <= b'z'
}

/// Characters a wire name can be made of: `[a-z0-9_]`.
#[inline(always)]
pub fn is_name_byte(c: u8) -> bool {
    is_lower(c) || (c >= b'0' && c <= b'9') || c == b'_'
}

/// Byte-wise string equality without `memcmp` (the unwind bound then only has to cover `N`).
#[inline(always)]
pub fn str_eq(a: &str, b: &str) -> bool {
    let a = a.as_bytes();
    let b = b.as_bytes();
    if a.len() != b.len() {
        return false;
    }
    let mut i = 0;
    while i < a.len() {
        if a[i] != b[i] {
            return false;
        }
        i += 1;
    }
    true
}

/// Lexicographic byte-wise `a < b`.
#[inline(always)]
pub fn str_lt(a: &str, b: &str) -> bool {
    let a = a.as_bytes();
    let b = b.as_bytes();
    let mut i = 0;
    while i < a.len() && i < b.len() {
        if a[i] != b[i] {
            return a[i] < b[i];
        }
        i += 1;
    }
    a.len() < b.len()
}

pub fn bytes_eq(a: &[u8], b: &[u8]) -> bool {
    if a.len() != b.len() {
        return false;
    }
    let mut i = 0;
    while i < a.len() {
        if a[i] != b[i] {
            return false;
        }
        i += 1;
    }
    true
}
