//! Harness support shared by all property crates.
//!
//! * `env`   — null Storage / Api / Querier, one-slot storage, env / info builders
//! * `doc`   — bounded serde document (`V`) + `Deserializer` over it ("serde-doc")
//! * `rec`   — recording `Serializer` ("rec-ser")
//! * `stubs` — replacement bodies for `#[kani::stub]`
//! * `sym`   — symbolic strings of concrete length
#![allow(clippy::all)]

pub mod call;
pub mod doc;
pub mod echo;
pub mod env;
pub mod rec;
pub mod stubs;
pub mod sym;
