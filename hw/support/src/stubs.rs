//! Bodies used with `#[kani::stub(..)]`.  Every stub in use is listed in the evidence file.

/// cosmwasm-std captures a backtrace inside every `StdError`; that code is irrelevant to every
/// property and costs ~30 min of symbolic execution.
pub fn bt_disabled() -> std::backtrace::Backtrace {
    std::backtrace::Backtrace::disabled()
}

/// Error *text* is outside every claim; `format!` returns a fixed two-character string (not the
/// empty one: the generated wrapper does `err_msg.truncate(err_msg.len() - 2)` on a string that
/// starts with a `format!` result, which must not underflow because of the stub).
pub fn fmt_stub(_args: core::fmt::Arguments<'_>) -> String {
    String::from("??")
}

/// `String::push_str` while the generated wrapper builds the *text* of its "unsupported message"
/// error with `acc + message + ", "` (outside every claim): the string is left unchanged.
pub fn push_str_stub(_s: &mut String, _o: &str) {}
