//! Bodies used with `#[kani::stub(..)]`.  Every stub in use is listed in the evidence file.

/// cosmwasm-std captures a backtrace inside every `StdError`; that code is irrelevant to every
/// property and costs ~30 min of symbolic execution.
pub fn bt_disabled() -> std::backtrace::Backtrace {
    std::backtrace::Backtrace::disabled()
}

/// Error *text* is outside every claim; `format!` returns a fixed two-character string (not the
/// empty one: the generated wrapper does `err_msg.truncate(err_msg.len() - 2)` on a string that
/// starts with a `format!` result, which must not underflow because of the stub).
pub fn fmt_stub(_args: core::fmt::Arguments<'_>) -> String {
    String::from("??")
}

/// `String::push_str` while the generated wrapper builds the *text* of its "unsupported message"
/// error with `acc + message + ", "` (outside every claim): the string is left unchanged.
pub fn push_str_stub(_s: &mut String, _o: &str) {}

/// `<Addr as Display>::fmt` is `write!(f, "{}", &self.0)`; going through `fmt::Arguments` makes the
/// length of the produced string opaque to CBMC (a second `to_string()` of it then does not finish).
/// Observationally the same: write the address string.
pub fn addr_fmt_stub(a: &cosmwasm_std::Addr, f: &mut core::fmt::Formatter<'_>) -> core::fmt::Result {
    f.write_str(a.as_str())
}

/// `Binary::to_base64` (the `base64` crate's engine does not finish under CBMC even for one concrete
/// byte).  Stand-in used where the property is "the returned value was JSON-ENCODED at all": the
/// constant one-letter string `b` (a symbolic character makes serde_json_wasm's escaping loop not finish).  The
/// base64 text itself is outside those claims.
pub fn b64_stub(_b: &cosmwasm_std::Binary) -> String {
    String::from("b")
}
