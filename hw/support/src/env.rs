//! Minimal chain environment: each of storage / api / querier carries a one-byte `tag` the echo
//! handlers can read back, so "the caller's storage, api and querier reached the handler" is
//! observable without any container.

use core::cell::Cell;
use cosmwasm_std::{
    Addr, Binary, BlockInfo, CanonicalAddr, Coin, ContractInfo, ContractResult, CustomQuery, Deps,
    DepsMut, Empty, Env, MessageInfo, Querier, QuerierResult, QuerierWrapper, RecoverPubkeyError,
    StdResult, Storage, SystemResult, Timestamp, TransactionInfo, Uint128, VerificationError,
};

/// One-slot storage: `get` of any key returns the slot byte, `set` overwrites it with the first
/// value byte and remembers the first key byte.
pub struct SlotStorage {
    pub slot: u8,
    pub last_key: u8,
    pub writes: u8,
}

impl SlotStorage {
    pub fn new(slot: u8) -> Self {
        SlotStorage {
            slot,
            last_key: 0,
            writes: 0,
        }
    }
}

impl Storage for SlotStorage {
    fn get(&self, _key: &[u8]) -> Option<Vec<u8>> {
        Some(vec![self.slot])
    }
    fn set(&mut self, key: &[u8], value: &[u8]) {
        self.last_key = if key.is_empty() { 0 } else { key[0] };
        self.slot = if value.is_empty() { 0 } else { value[0] };
        self.writes = self.writes.wrapping_add(1);
    }
    fn remove(&mut self, _key: &[u8]) {}
}

pub struct TagApi {
    pub tag: u8,
    /// set by `debug`: the handler calls `api.debug("")` and the harness reads `seen`.
    pub seen: Cell<u8>,
}

impl TagApi {
    pub fn new(tag: u8) -> Self {
        TagApi {
            tag,
            seen: Cell::new(0),
        }
    }
}

impl cosmwasm_std::Api for TagApi {
    fn addr_validate(&self, human: &str) -> StdResult<Addr> {
        Ok(Addr::unchecked(human))
    }
    fn addr_canonicalize(&self, _human: &str) -> StdResult<CanonicalAddr> {
        Ok(CanonicalAddr::from(vec![self.tag]))
    }
    fn addr_humanize(&self, _canonical: &CanonicalAddr) -> StdResult<Addr> {
        Ok(Addr::unchecked(""))
    }
    fn secp256k1_verify(&self, _: &[u8], _: &[u8], _: &[u8]) -> Result<bool, VerificationError> {
        Ok(false)
    }
    fn secp256k1_recover_pubkey(
        &self,
        _: &[u8],
        _: &[u8],
        _: u8,
    ) -> Result<Vec<u8>, RecoverPubkeyError> {
        Ok(Vec::new())
    }
    fn ed25519_verify(&self, _: &[u8], _: &[u8], _: &[u8]) -> Result<bool, VerificationError> {
        Ok(false)
    }
    fn ed25519_batch_verify(
        &self,
        _: &[&[u8]],
        _: &[&[u8]],
        _: &[&[u8]],
    ) -> Result<bool, VerificationError> {
        Ok(false)
    }
    fn debug(&self, _message: &str) {
        self.seen.set(self.tag);
    }
}

pub struct TagQuerier {
    pub tag: u8,
    pub seen: Cell<u8>,
}

impl TagQuerier {
    pub fn new(tag: u8) -> Self {
        TagQuerier {
            tag,
            seen: Cell::new(0),
        }
    }
}

impl Querier for TagQuerier {
    fn raw_query(&self, _bin_request: &[u8]) -> QuerierResult {
        self.seen.set(self.tag);
        SystemResult::Ok(ContractResult::Ok(Binary::default()))
    }
}

pub struct World {
    pub storage: SlotStorage,
    pub api: TagApi,
    pub querier: TagQuerier,
}

impl World {
    pub fn new(s: u8, a: u8, q: u8) -> Self {
        World {
            storage: SlotStorage::new(s),
            api: TagApi::new(a),
            querier: TagQuerier::new(q),
        }
    }
    pub fn deps_mut<C: CustomQuery>(&mut self) -> DepsMut<'_, C> {
        DepsMut {
            storage: &mut self.storage,
            api: &self.api,
            querier: QuerierWrapper::new(&self.querier),
        }
    }
    pub fn deps<C: CustomQuery>(&self) -> Deps<'_, C> {
        Deps {
            storage: &self.storage,
            api: &self.api,
            querier: QuerierWrapper::new(&self.querier),
        }
    }
}

/// What an echo handler saw of its context (all scalars; compared field by field).
#[derive(Clone, Copy)]
pub struct Seen {
    pub storage: u8,
    pub api: u8,
    pub querier: u8,
    pub height: u64,
    pub time: u64,
    pub has_tx: bool,
    pub tx_index: u32,
    pub contract0: u8,
    pub sender0: u8,
    pub sender_len: usize,
    pub nfunds: usize,
    pub amount0: u128,
}

impl Seen {
    pub const ZERO: Seen = Seen {
        storage: 0,
        api: 0,
        querier: 0,
        height: 0,
        time: 0,
        has_tx: false,
        tx_index: 0,
        contract0: 0,
        sender0: 0,
        sender_len: 0,
        nfunds: 0,
        amount0: 0,
    };
}

pub fn see_env(seen: &mut Seen, env: &Env) {
    seen.height = env.block.height;
    seen.time = env.block.time.nanos();
    seen.has_tx = env.transaction.is_some();
    seen.tx_index = match &env.transaction {
        Some(t) => t.index,
        None => 0,
    };
    seen.contract0 = first_byte(env.contract.address.as_str());
}

pub fn see_info(seen: &mut Seen, info: &MessageInfo) {
    seen.sender0 = first_byte(info.sender.as_str());
    seen.sender_len = info.sender.as_str().len();
    seen.nfunds = info.funds.len();
    seen.amount0 = if info.funds.is_empty() {
        0
    } else {
        info.funds[0].amount.u128()
    };
}

pub fn see_deps_mut<C: CustomQuery>(seen: &mut Seen, deps: &mut DepsMut<'_, C>) {
    seen.storage = match deps.storage.get(b"k") {
        Some(v) => v[0],
        None => 0,
    };
    deps.api.debug("");
    let _ = deps.querier.raw_query(b"");
}

pub fn see_deps<C: CustomQuery>(seen: &mut Seen, deps: &Deps<'_, C>) {
    seen.storage = match deps.storage.get(b"k") {
        Some(v) => v[0],
        None => 0,
    };
    deps.api.debug("");
    let _ = deps.querier.raw_query(b"");
}

pub fn first_byte(s: &str) -> u8 {
    let b = s.as_bytes();
    if b.is_empty() {
        0
    } else {
        b[0]
    }
}

/// Env with the given scalars; strings are one byte long (`chain` = "c").
pub fn mk_env(height: u64, time: u64, tx: Option<u32>, contract0: u8) -> Env {
    Env {
        block: BlockInfo {
            height,
            time: Timestamp::from_nanos(time),
            chain_id: String::new(),
        },
        transaction: tx.map(|index| TransactionInfo { index }),
        contract: ContractInfo {
            address: Addr::unchecked(one_char(contract0)),
        },
    }
}

/// Info with a one-byte sender and 0 or 1 coin (denom empty).
pub fn mk_info(sender0: u8, coin: Option<u128>) -> MessageInfo {
    MessageInfo {
        sender: Addr::unchecked(one_char(sender0)),
        funds: match coin {
            Some(a) => vec![Coin {
                denom: String::new(),
                amount: Uint128::new(a),
            }],
            None => Vec::new(),
        },
    }
}

/// One ASCII byte as a `String` (callers constrain `c < 128`).
pub fn one_char(c: u8) -> String {
    let mut s = String::with_capacity(1);
    s.push((c & 0x7f) as char);
    s
}

pub type NoCustom = Empty;
