//! Echo-handler plumbing: corpus handlers record *who ran, with what, seeing which context* into a
//! global log (Kani harnesses are single-threaded) and produce an outcome chosen by the harness.

use crate::env::{see_deps, see_deps_mut, see_env, see_info, Seen};
use cosmwasm_std::{Binary, CustomQuery, Deps, DepsMut, Env, MessageInfo, Response};

#[derive(Clone, Copy)]
pub struct Log {
    /// number of handler invocations since `reset`
    pub count: u32,
    /// id of the last handler that ran (corpus-defined constant), 0 = none
    pub id: u32,
    /// its arguments, positionally, widened to u64
    pub args: [u64; 4],
    pub seen: Seen,
}

pub static mut LOG: Log = Log {
    count: 0,
    id: 0,
    args: [0; 4],
    seen: Seen::ZERO,
};

/// Outcome control, set by the harness before the call.
#[derive(Clone, Copy)]
pub struct Ctl {
    pub fail: bool,
    pub code: u8,
    pub data: u8,
    /// digit returned by query handlers (0..=9)
    pub digit: u8,
}

pub static mut CTL: Ctl = Ctl {
    fail: false,
    code: 0,
    data: 0,
    digit: 0,
};

/// Byte every mutating echo handler writes into the caller's storage.
pub const MARK_KEY: u8 = b'm';

pub fn reset() {
    unsafe {
        LOG = Log {
            count: 0,
            id: 0,
            args: [0; 4],
            seen: Seen::ZERO,
        };
    }
}

pub fn set_ctl(c: Ctl) {
    unsafe {
        CTL = c;
    }
}

pub fn log() -> Log {
    unsafe { LOG }
}

pub fn ctl() -> Ctl {
    unsafe { CTL }
}

fn begin(id: u32, args: [u64; 4]) {
    unsafe {
        LOG.count += 1;
        LOG.id = id;
        LOG.args = args;
        LOG.seen = Seen::ZERO;
    }
}

/// Record an invocation with a mutable context (instantiate / exec / sudo / migrate / reply).
pub fn rec_mut<C: CustomQuery>(
    id: u32,
    args: [u64; 4],
    deps: &mut DepsMut<'_, C>,
    env: &Env,
    info: Option<&MessageInfo>,
) {
    begin(id, args);
    unsafe {
        let mut s = Seen::ZERO;
        see_deps_mut(&mut s, deps);
        see_env(&mut s, env);
        if let Some(i) = info {
            see_info(&mut s, i);
        }
        LOG.seen = s;
    }
    // marker: (id & 0xff) into the caller's storage
    deps.storage.set(&[MARK_KEY], &[(id & 0xff) as u8]);
}

/// Record an invocation with a read-only context (query).
pub fn rec_ro<C: CustomQuery>(id: u32, args: [u64; 4], deps: &Deps<'_, C>, env: &Env) {
    begin(id, args);
    unsafe {
        let mut s = Seen::ZERO;
        see_deps(&mut s, deps);
        see_env(&mut s, env);
        LOG.seen = s;
    }
}

/// Error an echo handler returns when told to fail.
#[derive(Debug, Clone, Copy, PartialEq, Eq)]
pub struct MyErr(pub u8);

/// `Ok(Response{data: [d]})` or `Err(MyErr(code))` as chosen by the harness.
pub fn outcome<M, E: From<MyErr>>() -> Result<Response<M>, E> {
    let c = ctl();
    if c.fail {
        Err(E::from(MyErr(c.code)))
    } else {
        let mut r = Response::<M>::new();
        r.data = Some(Binary::from(vec![c.data]));
        Ok(r)
    }
}

/// Query outcome: `Ok(v)` or `Err`.
pub fn q_outcome<T, E: From<MyErr>>(v: T) -> Result<T, E> {
    let c = ctl();
    if c.fail {
        Err(E::from(MyErr(c.code)))
    } else {
        Ok(v)
    }
}

/// First data byte of a response (0 if none) and whether data is present.
pub fn resp_data<M>(r: &Response<M>) -> (bool, u8, usize) {
    match &r.data {
        Some(b) => {
            let s = b.as_slice();
            (true, if s.is_empty() { 0 } else { s[0] }, s.len())
        }
        None => (false, 0, 0),
    }
}
