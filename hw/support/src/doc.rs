//! "serde-doc": bounded, allocation-free serde documents and `Deserializer`s over them.
//!
//! They stand where `serde_json_wasm::Deserializer` stands at run time; the JSON *text* layer is
//! outside every claim (DESIGN §1 P5).
//!
//! Every document shape is its own plain struct with *const-generic* sizes — no recursive enum, no
//! run-time lengths.  (A first version used one recursive `enum V { Map(&[(&str, V)]), .. }`: CBMC
//! then could not resolve the variant tags read back through the slices, unwound the
//! Value -> map -> entry -> Value recursion to the full bound on every path and did not finish;
//! with concrete struct fields symbolic execution is linear.)
//!
//!   Sc                 scalar: number or bool
//!   Obj<K>             { k1: s1, .., kK: sK }            (flat object of scalars: message bodies,
//!                                                         instantiate / migrate messages)
//!   Msg<K>             { name: Obj<K> }                  (exec / query / sudo messages)
//!   NameSc             { name: scalar }
//!   Pair<K1, K2>       { n1: Obj<K1>, n2: Obj<K2> }      (two top-level keys)
//!   TopStr, TopNull, TopNum, Empty0                      "name", null, 5, {}

use core::fmt;
use serde::de::{self, DeserializeSeed, Deserializer, EnumAccess, MapAccess, VariantAccess, Visitor};
use serde::forward_to_deserialize_any;

/// Error with a coarse code, no text.
#[derive(Clone, Copy, Debug, PartialEq, Eq)]
pub enum E {
    Custom,
    InvalidType,
    InvalidValue,
    InvalidLength,
    UnknownVariant,
    UnknownField,
    MissingField,
    DuplicateField,
}

impl fmt::Display for E {
    fn fmt(&self, _f: &mut fmt::Formatter<'_>) -> fmt::Result {
        Ok(())
    }
}
impl std::error::Error for E {}
impl de::Error for E {
    fn custom<T: fmt::Display>(_: T) -> Self {
        E::Custom
    }
    fn invalid_type(_: de::Unexpected<'_>, _: &dyn de::Expected) -> Self {
        E::InvalidType
    }
    fn invalid_value(_: de::Unexpected<'_>, _: &dyn de::Expected) -> Self {
        E::InvalidValue
    }
    fn invalid_length(_: usize, _: &dyn de::Expected) -> Self {
        E::InvalidLength
    }
    fn unknown_variant(_: &str, _: &'static [&'static str]) -> Self {
        E::UnknownVariant
    }
    fn unknown_field(_: &str, _: &'static [&'static str]) -> Self {
        E::UnknownField
    }
    fn missing_field(_: &'static str) -> Self {
        E::MissingField
    }
    fn duplicate_field(_: &'static str) -> Self {
        E::DuplicateField
    }
}
impl serde::ser::Error for E {
    fn custom<T: fmt::Display>(_: T) -> Self {
        E::Custom
    }
}

macro_rules! fwd_all_but_any {
    () => {
        forward_to_deserialize_any! { bool u8 u16 u32 u64 i8 i16 i32 i64 i128 u128 f32 f64 char str string unit seq
        bytes byte_buf map unit_struct newtype_struct tuple_struct struct tuple identifier option enum ignored_any }
    };
}

// ---- strings (keys, variant names) ---------------------------------------------------------------

#[derive(Clone, Copy)]
pub struct StrDe<'a>(pub &'a str);

impl<'de, 'a> Deserializer<'de> for StrDe<'a> {
    type Error = E;
    fn deserialize_any<Vi: Visitor<'de>>(self, visitor: Vi) -> Result<Vi::Value, E> {
        visitor.visit_str(self.0)
    }
    fn deserialize_newtype_struct<Vi: Visitor<'de>>(self, _n: &'static str, visitor: Vi) -> Result<Vi::Value, E> {
        visitor.visit_newtype_struct(self)
    }
    fn deserialize_option<Vi: Visitor<'de>>(self, visitor: Vi) -> Result<Vi::Value, E> {
        visitor.visit_some(self)
    }
    forward_to_deserialize_any! { bool u8 u16 u32 u64 i8 i16 i32 i64 i128 u128 f32 f64 char str string unit seq
    bytes byte_buf map unit_struct tuple_struct struct tuple identifier enum ignored_any }
}

// ---- scalars -----------------------------------------------------------------------------------------

/// A JSON number (`is_bool == false`) or boolean.
#[derive(Clone, Copy)]
pub struct Sc {
    pub is_bool: bool,
    pub v: u64,
}

pub const fn num(v: u64) -> Sc {
    Sc { is_bool: false, v }
}
pub const fn boolean(b: bool) -> Sc {
    Sc {
        is_bool: true,
        v: b as u64,
    }
}

impl<'de> Deserializer<'de> for Sc {
    type Error = E;
    fn deserialize_any<Vi: Visitor<'de>>(self, visitor: Vi) -> Result<Vi::Value, E> {
        if self.is_bool {
            visitor.visit_bool(self.v != 0)
        } else {
            visitor.visit_u64(self.v)
        }
    }
    fn deserialize_option<Vi: Visitor<'de>>(self, visitor: Vi) -> Result<Vi::Value, E> {
        visitor.visit_some(self)
    }
    fn deserialize_newtype_struct<Vi: Visitor<'de>>(self, _n: &'static str, visitor: Vi) -> Result<Vi::Value, E> {
        visitor.visit_newtype_struct(self)
    }
    fn deserialize_enum<Vi: Visitor<'de>>(
        self,
        _n: &'static str,
        _vs: &'static [&'static str],
        _visitor: Vi,
    ) -> Result<Vi::Value, E> {
        Err(E::InvalidType)
    }
    /// `IgnoredAny` discards whatever it is given.
    fn deserialize_ignored_any<Vi: Visitor<'de>>(self, visitor: Vi) -> Result<Vi::Value, E> {
        visitor.visit_unit()
    }
    forward_to_deserialize_any! { bool u8 u16 u32 u64 i8 i16 i32 i64 i128 u128 f32 f64 char str string unit seq
    bytes byte_buf map unit_struct tuple_struct struct tuple identifier }
}

// ---- flat object of scalars ------------------------------------------------------------------------

#[derive(Clone, Copy)]
pub struct Obj<'a, const K: usize> {
    pub keys: [&'a str; K],
    pub vals: [Sc; K],
}

pub struct ObjAcc<'a, const K: usize> {
    o: Obj<'a, K>,
    i: usize,
}

impl<'de, 'a, const K: usize> MapAccess<'de> for ObjAcc<'a, K> {
    type Error = E;
    fn next_key_seed<S: DeserializeSeed<'de>>(&mut self, seed: S) -> Result<Option<S::Value>, E> {
        if self.i < K {
            seed.deserialize(StrDe(self.o.keys[self.i])).map(Some)
        } else {
            Ok(None)
        }
    }
    fn next_value_seed<S: DeserializeSeed<'de>>(&mut self, seed: S) -> Result<S::Value, E> {
        let v = self.o.vals[self.i];
        self.i += 1;
        seed.deserialize(v)
    }
}

/// Body of an enum variant given as a scalar (`{name: 5}`).
pub struct ScVariant(Sc);

impl<'de> VariantAccess<'de> for ScVariant {
    type Error = E;
    fn unit_variant(self) -> Result<(), E> {
        Err(E::InvalidType)
    }
    fn newtype_variant_seed<T: DeserializeSeed<'de>>(self, seed: T) -> Result<T::Value, E> {
        seed.deserialize(self.0)
    }
    fn tuple_variant<Vi: Visitor<'de>>(self, _l: usize, _v: Vi) -> Result<Vi::Value, E> {
        Err(E::InvalidType)
    }
    fn struct_variant<Vi: Visitor<'de>>(self, _f: &'static [&'static str], _v: Vi) -> Result<Vi::Value, E> {
        Err(E::InvalidType)
    }
}

pub struct ScEnum<'a> {
    name: &'a str,
    sc: Sc,
}

impl<'de, 'a> EnumAccess<'de> for ScEnum<'a> {
    type Error = E;
    type Variant = ScVariant;
    fn variant_seed<S: DeserializeSeed<'de>>(self, seed: S) -> Result<(S::Value, ScVariant), E> {
        let var = ScVariant(self.sc);
        seed.deserialize(StrDe(self.name)).map(|x| (x, var))
    }
}

impl<'de, 'a, const K: usize> Deserializer<'de> for Obj<'a, K> {
    type Error = E;
    fn deserialize_any<Vi: Visitor<'de>>(self, visitor: Vi) -> Result<Vi::Value, E> {
        visitor.visit_map(ObjAcc { o: self, i: 0 })
    }
    fn deserialize_option<Vi: Visitor<'de>>(self, visitor: Vi) -> Result<Vi::Value, E> {
        visitor.visit_some(self)
    }
    /// A flat object sent where an enum is expected: one entry -> `{variant: scalar}`.
    fn deserialize_enum<Vi: Visitor<'de>>(
        self,
        _n: &'static str,
        _vs: &'static [&'static str],
        visitor: Vi,
    ) -> Result<Vi::Value, E> {
        if K != 1 {
            return Err(E::InvalidLength);
        }
        visitor.visit_enum(ScEnum {
            name: self.keys[0],
            sc: self.vals[0],
        })
    }
    fn deserialize_ignored_any<Vi: Visitor<'de>>(self, visitor: Vi) -> Result<Vi::Value, E> {
        visitor.visit_unit()
    }
    forward_to_deserialize_any! { bool u8 u16 u32 u64 i8 i16 i32 i64 i128 u128 f32 f64 char str string unit seq
    bytes byte_buf map unit_struct newtype_struct tuple_struct struct tuple identifier }
}

// ---- { name: { .. } } ---------------------------------------------------------------------------------

#[derive(Clone, Copy)]
pub struct Msg<'a, const K: usize> {
    pub name: &'a str,
    pub body: Obj<'a, K>,
}

pub struct MsgAcc<'a, const K: usize> {
    m: Msg<'a, K>,
    done: bool,
}

impl<'de, 'a, const K: usize> MapAccess<'de> for MsgAcc<'a, K> {
    type Error = E;
    fn next_key_seed<S: DeserializeSeed<'de>>(&mut self, seed: S) -> Result<Option<S::Value>, E> {
        if !self.done {
            seed.deserialize(StrDe(self.m.name)).map(Some)
        } else {
            Ok(None)
        }
    }
    fn next_value_seed<S: DeserializeSeed<'de>>(&mut self, seed: S) -> Result<S::Value, E> {
        self.done = true;
        seed.deserialize(self.m.body)
    }
}

pub struct ObjVariant<'a, const K: usize>(Obj<'a, K>);

impl<'de, 'a, const K: usize> VariantAccess<'de> for ObjVariant<'a, K> {
    type Error = E;
    fn unit_variant(self) -> Result<(), E> {
        Err(E::InvalidType)
    }
    fn newtype_variant_seed<T: DeserializeSeed<'de>>(self, seed: T) -> Result<T::Value, E> {
        seed.deserialize(self.0)
    }
    fn tuple_variant<Vi: Visitor<'de>>(self, _l: usize, _v: Vi) -> Result<Vi::Value, E> {
        Err(E::InvalidType)
    }
    fn struct_variant<Vi: Visitor<'de>>(self, _f: &'static [&'static str], visitor: Vi) -> Result<Vi::Value, E> {
        visitor.visit_map(ObjAcc { o: self.0, i: 0 })
    }
}

pub struct MsgEnum<'a, const K: usize>(Msg<'a, K>);

impl<'de, 'a, const K: usize> EnumAccess<'de> for MsgEnum<'a, K> {
    type Error = E;
    type Variant = ObjVariant<'a, K>;
    fn variant_seed<S: DeserializeSeed<'de>>(self, seed: S) -> Result<(S::Value, ObjVariant<'a, K>), E> {
        let var = ObjVariant(self.0.body);
        seed.deserialize(StrDe(self.0.name)).map(|x| (x, var))
    }
}

impl<'de, 'a, const K: usize> Deserializer<'de> for Msg<'a, K> {
    type Error = E;
    fn deserialize_any<Vi: Visitor<'de>>(self, visitor: Vi) -> Result<Vi::Value, E> {
        visitor.visit_map(MsgAcc { m: self, done: false })
    }
    fn deserialize_option<Vi: Visitor<'de>>(self, visitor: Vi) -> Result<Vi::Value, E> {
        visitor.visit_some(self)
    }
    fn deserialize_enum<Vi: Visitor<'de>>(
        self,
        _n: &'static str,
        _vs: &'static [&'static str],
        visitor: Vi,
    ) -> Result<Vi::Value, E> {
        visitor.visit_enum(MsgEnum(self))
    }
    fn deserialize_ignored_any<Vi: Visitor<'de>>(self, visitor: Vi) -> Result<Vi::Value, E> {
        visitor.visit_unit()
    }
    forward_to_deserialize_any! { bool u8 u16 u32 u64 i8 i16 i32 i64 i128 u128 f32 f64 char str string unit seq
    bytes byte_buf map unit_struct newtype_struct tuple_struct struct tuple identifier }
}

// ---- { name: scalar } -----------------------------------------------------------------------------------

#[derive(Clone, Copy)]
pub struct NameSc<'a> {
    pub name: &'a str,
    pub sc: Sc,
}

impl<'de, 'a> Deserializer<'de> for NameSc<'a> {
    type Error = E;
    fn deserialize_any<Vi: Visitor<'de>>(self, visitor: Vi) -> Result<Vi::Value, E> {
        visitor.visit_map(ObjAcc {
            o: Obj {
                keys: [self.name],
                vals: [self.sc],
            },
            i: 0,
        })
    }
    fn deserialize_enum<Vi: Visitor<'de>>(
        self,
        _n: &'static str,
        _vs: &'static [&'static str],
        visitor: Vi,
    ) -> Result<Vi::Value, E> {
        visitor.visit_enum(ScEnum {
            name: self.name,
            sc: self.sc,
        })
    }
    fn deserialize_ignored_any<Vi: Visitor<'de>>(self, visitor: Vi) -> Result<Vi::Value, E> {
        visitor.visit_unit()
    }
    forward_to_deserialize_any! { bool u8 u16 u32 u64 i8 i16 i32 i64 i128 u128 f32 f64 char str string unit seq
    bytes byte_buf map unit_struct newtype_struct tuple_struct struct tuple identifier option }
}

// ---- { n1: {..}, n2: {..} } ---------------------------------------------------------------------------

#[derive(Clone, Copy)]
pub struct Pair<'a, const K1: usize, const K2: usize> {
    pub first: Msg<'a, K1>,
    pub second: Msg<'a, K2>,
}

pub struct PairAcc<'a, const K1: usize, const K2: usize> {
    p: Pair<'a, K1, K2>,
    i: u8,
}

impl<'de, 'a, const K1: usize, const K2: usize> MapAccess<'de> for PairAcc<'a, K1, K2> {
    type Error = E;
    fn next_key_seed<S: DeserializeSeed<'de>>(&mut self, seed: S) -> Result<Option<S::Value>, E> {
        match self.i {
            0 => seed.deserialize(StrDe(self.p.first.name)).map(Some),
            1 => seed.deserialize(StrDe(self.p.second.name)).map(Some),
            _ => Ok(None),
        }
    }
    fn next_value_seed<S: DeserializeSeed<'de>>(&mut self, seed: S) -> Result<S::Value, E> {
        let i = self.i;
        self.i += 1;
        if i == 0 {
            seed.deserialize(self.p.first.body)
        } else {
            seed.deserialize(self.p.second.body)
        }
    }
}

impl<'de, 'a, const K1: usize, const K2: usize> Deserializer<'de> for Pair<'a, K1, K2> {
    type Error = E;
    fn deserialize_any<Vi: Visitor<'de>>(self, visitor: Vi) -> Result<Vi::Value, E> {
        visitor.visit_map(PairAcc { p: self, i: 0 })
    }
    /// serde_json(-wasm) reads one key/value and then expects the closing brace.
    fn deserialize_enum<Vi: Visitor<'de>>(
        self,
        _n: &'static str,
        _vs: &'static [&'static str],
        _visitor: Vi,
    ) -> Result<Vi::Value, E> {
        Err(E::InvalidLength)
    }
    fn deserialize_ignored_any<Vi: Visitor<'de>>(self, visitor: Vi) -> Result<Vi::Value, E> {
        visitor.visit_unit()
    }
    forward_to_deserialize_any! { bool u8 u16 u32 u64 i8 i16 i32 i64 i128 u128 f32 f64 char str string unit seq
    bytes byte_buf map unit_struct newtype_struct tuple_struct struct tuple identifier option }
}

// ---- "name", null, 5, {} ----------------------------------------------------------------------------------

#[derive(Clone, Copy)]
pub struct TopStr<'a>(pub &'a str);

pub struct UnitOnly;
impl<'de> VariantAccess<'de> for UnitOnly {
    type Error = E;
    fn unit_variant(self) -> Result<(), E> {
        Ok(())
    }
    fn newtype_variant_seed<T: DeserializeSeed<'de>>(self, _seed: T) -> Result<T::Value, E> {
        Err(E::InvalidType)
    }
    fn tuple_variant<Vi: Visitor<'de>>(self, _l: usize, _v: Vi) -> Result<Vi::Value, E> {
        Err(E::InvalidType)
    }
    fn struct_variant<Vi: Visitor<'de>>(self, _f: &'static [&'static str], _v: Vi) -> Result<Vi::Value, E> {
        Err(E::InvalidType)
    }
}
pub struct StrEnum<'a>(&'a str);
impl<'de, 'a> EnumAccess<'de> for StrEnum<'a> {
    type Error = E;
    type Variant = UnitOnly;
    fn variant_seed<S: DeserializeSeed<'de>>(self, seed: S) -> Result<(S::Value, UnitOnly), E> {
        seed.deserialize(StrDe(self.0)).map(|x| (x, UnitOnly))
    }
}

impl<'de, 'a> Deserializer<'de> for TopStr<'a> {
    type Error = E;
    fn deserialize_any<Vi: Visitor<'de>>(self, visitor: Vi) -> Result<Vi::Value, E> {
        visitor.visit_str(self.0)
    }
    fn deserialize_enum<Vi: Visitor<'de>>(
        self,
        _n: &'static str,
        _vs: &'static [&'static str],
        visitor: Vi,
    ) -> Result<Vi::Value, E> {
        visitor.visit_enum(StrEnum(self.0))
    }
    forward_to_deserialize_any! { bool u8 u16 u32 u64 i8 i16 i32 i64 i128 u128 f32 f64 char str string unit seq
    bytes byte_buf map unit_struct newtype_struct tuple_struct struct tuple identifier option ignored_any }
}

#[derive(Clone, Copy)]
pub struct TopNull;

impl<'de> Deserializer<'de> for TopNull {
    type Error = E;
    fn deserialize_any<Vi: Visitor<'de>>(self, visitor: Vi) -> Result<Vi::Value, E> {
        visitor.visit_unit()
    }
    fn deserialize_option<Vi: Visitor<'de>>(self, visitor: Vi) -> Result<Vi::Value, E> {
        visitor.visit_none()
    }
    fn deserialize_enum<Vi: Visitor<'de>>(
        self,
        _n: &'static str,
        _vs: &'static [&'static str],
        _visitor: Vi,
    ) -> Result<Vi::Value, E> {
        Err(E::InvalidType)
    }
    forward_to_deserialize_any! { bool u8 u16 u32 u64 i8 i16 i32 i64 i128 u128 f32 f64 char str string unit seq
    bytes byte_buf map unit_struct newtype_struct tuple_struct struct tuple identifier ignored_any }
}

/// A bare number at top level is `Sc` itself.
pub type TopNum = Sc;

/// `{}`
pub type Empty0<'a> = Obj<'a, 0>;
pub const EMPTY0: Obj<'static, 0> = Obj { keys: [], vals: [] };

/// Decode `T` from a document.
pub fn decode<'de, T: serde::Deserialize<'de>, D: Deserializer<'de, Error = E>>(d: D) -> Result<T, E> {
    T::deserialize(d)
}

// ---- { k1: "s1", .. }: flat object of STRING values ---------------------------------------------------

#[derive(Clone, Copy)]
pub struct StrObj<'a, const K: usize> {
    pub keys: [&'a str; K],
    pub vals: [&'a str; K],
}

pub struct StrObjAcc<'a, const K: usize> {
    o: StrObj<'a, K>,
    i: usize,
}

impl<'de, 'a, const K: usize> MapAccess<'de> for StrObjAcc<'a, K> {
    type Error = E;
    fn next_key_seed<S: DeserializeSeed<'de>>(&mut self, seed: S) -> Result<Option<S::Value>, E> {
        if self.i < K {
            seed.deserialize(StrDe(self.o.keys[self.i])).map(Some)
        } else {
            Ok(None)
        }
    }
    fn next_value_seed<S: DeserializeSeed<'de>>(&mut self, seed: S) -> Result<S::Value, E> {
        let v = self.o.vals[self.i];
        self.i += 1;
        seed.deserialize(StrDe(v))
    }
}

impl<'de, 'a, const K: usize> Deserializer<'de> for StrObj<'a, K> {
    type Error = E;
    fn deserialize_any<Vi: Visitor<'de>>(self, visitor: Vi) -> Result<Vi::Value, E> {
        visitor.visit_map(StrObjAcc { o: self, i: 0 })
    }
    fn deserialize_ignored_any<Vi: Visitor<'de>>(self, visitor: Vi) -> Result<Vi::Value, E> {
        visitor.visit_unit()
    }
    forward_to_deserialize_any! { bool u8 u16 u32 u64 i8 i16 i32 i64 i128 u128 f32 f64 char str string unit seq
    bytes byte_buf map unit_struct newtype_struct tuple_struct struct tuple identifier option enum }
}
