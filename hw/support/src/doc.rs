//! "serde-doc": a bounded, allocation-free serde document and a `Deserializer` over it.
//!
//! It stands where `serde_json_wasm::Deserializer` stands at run time; the JSON *text* layer is
//! outside every claim (DESIGN §1 P5).  Shapes are concrete per harness instance, string bytes and
//! scalar values are symbolic.

use core::fmt;
use serde::de::{
    self, DeserializeSeed, Deserializer, EnumAccess, MapAccess, SeqAccess, VariantAccess, Visitor,
};
use serde::forward_to_deserialize_any;

/// Error with a coarse code, no text.
#[derive(Clone, Copy, Debug, PartialEq, Eq)]
pub enum E {
    Custom,
    InvalidType,
    InvalidValue,
    InvalidLength,
    UnknownVariant,
    UnknownField,
    MissingField,
    DuplicateField,
}

impl fmt::Display for E {
    fn fmt(&self, _f: &mut fmt::Formatter<'_>) -> fmt::Result {
        Ok(())
    }
}
impl std::error::Error for E {}
impl de::Error for E {
    fn custom<T: fmt::Display>(_: T) -> Self {
        E::Custom
    }
    fn invalid_type(_: de::Unexpected<'_>, _: &dyn de::Expected) -> Self {
        E::InvalidType
    }
    fn invalid_value(_: de::Unexpected<'_>, _: &dyn de::Expected) -> Self {
        E::InvalidValue
    }
    fn invalid_length(_: usize, _: &dyn de::Expected) -> Self {
        E::InvalidLength
    }
    fn unknown_variant(_: &str, _: &'static [&'static str]) -> Self {
        E::UnknownVariant
    }
    fn unknown_field(_: &str, _: &'static [&'static str]) -> Self {
        E::UnknownField
    }
    fn missing_field(_: &'static str) -> Self {
        E::MissingField
    }
    fn duplicate_field(_: &'static str) -> Self {
        E::DuplicateField
    }
}
impl serde::ser::Error for E {
    fn custom<T: fmt::Display>(_: T) -> Self {
        E::Custom
    }
}

/// A JSON-like value over borrowed data.
#[derive(Clone, Copy)]
pub enum V<'a> {
    Null,
    Bool(bool),
    U64(u64),
    Str(&'a str),
    Map(&'a [(&'a str, V<'a>)]),
    Seq(&'a [V<'a>]),
}

struct StrDe<'a>(&'a str);

impl<'de, 'a> Deserializer<'de> for StrDe<'a> {
    type Error = E;
    fn deserialize_any<Vi: Visitor<'de>>(self, visitor: Vi) -> Result<Vi::Value, E> {
        visitor.visit_str(self.0)
    }
    forward_to_deserialize_any! { bool u8 u16 u32 u64 i8 i16 i32 i64 i128 u128 f32 f64 char str string unit seq
    bytes byte_buf map unit_struct newtype_struct tuple_struct struct tuple identifier option enum ignored_any }
}

struct MapDe<'a> {
    m: &'a [(&'a str, V<'a>)],
    i: usize,
}

impl<'de, 'a> MapAccess<'de> for MapDe<'a> {
    type Error = E;
    fn next_key_seed<K: DeserializeSeed<'de>>(&mut self, seed: K) -> Result<Option<K::Value>, E> {
        if self.i < self.m.len() {
            seed.deserialize(StrDe(self.m[self.i].0)).map(Some)
        } else {
            Ok(None)
        }
    }
    fn next_value_seed<S: DeserializeSeed<'de>>(&mut self, seed: S) -> Result<S::Value, E> {
        let v = self.m[self.i].1;
        self.i += 1;
        seed.deserialize(v)
    }
}

struct SeqDe<'a> {
    s: &'a [V<'a>],
    i: usize,
}

impl<'de, 'a> SeqAccess<'de> for SeqDe<'a> {
    type Error = E;
    fn next_element_seed<T: DeserializeSeed<'de>>(&mut self, seed: T) -> Result<Option<T::Value>, E> {
        if self.i < self.s.len() {
            let v = self.s[self.i];
            self.i += 1;
            seed.deserialize(v).map(Some)
        } else {
            Ok(None)
        }
    }
}

struct EnumDe<'a> {
    name: &'a str,
    body: Option<V<'a>>,
}

impl<'de, 'a> EnumAccess<'de> for EnumDe<'a> {
    type Error = E;
    type Variant = VarDe<'a>;
    fn variant_seed<S: DeserializeSeed<'de>>(self, seed: S) -> Result<(S::Value, VarDe<'a>), E> {
        let var = VarDe(self.body);
        seed.deserialize(StrDe(self.name)).map(|x| (x, var))
    }
}

struct VarDe<'a>(Option<V<'a>>);

impl<'de, 'a> VariantAccess<'de> for VarDe<'a> {
    type Error = E;
    fn unit_variant(self) -> Result<(), E> {
        match self.0 {
            None | Some(V::Null) => Ok(()),
            _ => Err(E::InvalidType),
        }
    }
    fn newtype_variant_seed<T: DeserializeSeed<'de>>(self, seed: T) -> Result<T::Value, E> {
        match self.0 {
            Some(v) => seed.deserialize(v),
            None => Err(E::InvalidType),
        }
    }
    fn tuple_variant<Vi: Visitor<'de>>(self, _l: usize, visitor: Vi) -> Result<Vi::Value, E> {
        match self.0 {
            Some(V::Seq(s)) => visitor.visit_seq(SeqDe { s, i: 0 }),
            _ => Err(E::InvalidType),
        }
    }
    fn struct_variant<Vi: Visitor<'de>>(
        self,
        _f: &'static [&'static str],
        visitor: Vi,
    ) -> Result<Vi::Value, E> {
        match self.0 {
            Some(V::Map(m)) => visitor.visit_map(MapDe { m, i: 0 }),
            _ => Err(E::InvalidType),
        }
    }
}

impl<'de, 'a> Deserializer<'de> for V<'a> {
    type Error = E;

    fn deserialize_any<Vi: Visitor<'de>>(self, visitor: Vi) -> Result<Vi::Value, E> {
        match self {
            V::Null => visitor.visit_unit(),
            V::Bool(b) => visitor.visit_bool(b),
            V::U64(n) => visitor.visit_u64(n),
            V::Str(s) => visitor.visit_str(s),
            V::Map(m) => visitor.visit_map(MapDe { m, i: 0 }),
            V::Seq(s) => visitor.visit_seq(SeqDe { s, i: 0 }),
        }
    }

    fn deserialize_option<Vi: Visitor<'de>>(self, visitor: Vi) -> Result<Vi::Value, E> {
        match self {
            V::Null => visitor.visit_none(),
            _ => visitor.visit_some(self),
        }
    }

    fn deserialize_enum<Vi: Visitor<'de>>(
        self,
        _n: &'static str,
        _vs: &'static [&'static str],
        visitor: Vi,
    ) -> Result<Vi::Value, E> {
        match self {
            V::Map(m) => {
                if m.len() != 1 {
                    return Err(E::InvalidLength);
                }
                visitor.visit_enum(EnumDe {
                    name: m[0].0,
                    body: Some(m[0].1),
                })
            }
            V::Str(s) => visitor.visit_enum(EnumDe {
                name: s,
                body: None,
            }),
            _ => Err(E::InvalidType),
        }
    }

    fn deserialize_newtype_struct<Vi: Visitor<'de>>(
        self,
        _n: &'static str,
        visitor: Vi,
    ) -> Result<Vi::Value, E> {
        visitor.visit_newtype_struct(self)
    }

    /// `IgnoredAny` discards whatever it is given; answering directly removes a recursion.
    fn deserialize_ignored_any<Vi: Visitor<'de>>(self, visitor: Vi) -> Result<Vi::Value, E> {
        visitor.visit_unit()
    }

    forward_to_deserialize_any! { bool u8 u16 u32 u64 i8 i16 i32 i64 i128 u128 f32 f64 char str string unit seq
    bytes byte_buf map unit_struct tuple_struct struct tuple identifier }
}

/// Decode `T` from a document.
pub fn decode<'a, T: serde::Deserialize<'a>>(v: V<'a>) -> Result<T, E> {
    T::deserialize(v)
}
