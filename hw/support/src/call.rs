//! Call context shared by the dispatch / entry-point / reply harnesses: symbolic under Kani
//! (`any_in`), fixed for native replays (`fixed_in`).

use crate::echo::{self, Ctl, MARK_KEY};
use crate::env::{mk_env, mk_info, World};
use cosmwasm_std::{Env, MessageInfo};

pub struct In {
    pub s: u8,
    pub a: u8,
    pub q: u8,
    pub height: u64,
    pub time: u64,
    pub tx: Option<u32>,
    pub c0: u8,
    pub sender0: u8,
    pub coin: Option<u128>,
    pub ctl: Ctl,
}

/// A fixed context for NATIVE replays of harness bodies (no solver): resets the echo log.
pub fn fixed_in() -> In {
    let i = In {
        s: 7,
        a: 8,
        q: 9,
        height: 11,
        time: 12,
        tx: Some(3),
        c0: b'c',
        sender0: b's',
        coin: Some(5),
        ctl: Ctl { fail: false, code: 0, data: 42, digit: 4 },
    };
    echo::reset();
    echo::set_ctl(i.ctl);
    i
}

/// Arbitrary context; resets the echo log and installs the outcome control.
#[cfg(kani)]
pub fn any_in() -> In {
    let c0: u8 = kani::any();
    let sender0: u8 = kani::any();
    kani::assume(c0 < 128 && sender0 < 128);
    let digit: u8 = kani::any();
    kani::assume(digit <= 9);
    let i = In {
        s: kani::any(),
        a: kani::any(),
        q: kani::any(),
        height: kani::any(),
        time: kani::any(),
        tx: if kani::any() { Some(kani::any()) } else { None },
        c0,
        sender0,
        coin: if kani::any() { Some(kani::any()) } else { None },
        ctl: Ctl {
            fail: kani::any(),
            code: kani::any(),
            data: kani::any(),
            digit,
        },
    };
    // tags are non-zero so that "seen" differs from the zeroed log
    kani::assume(i.s != 0 && i.a != 0 && i.q != 0);
    echo::reset();
    echo::set_ctl(i.ctl);
    i
}

impl In {
    pub fn world(&self) -> World {
        World::new(self.s, self.a, self.q)
    }
    pub fn env(&self) -> Env {
        mk_env(self.height, self.time, self.tx, self.c0)
    }
    pub fn info(&self) -> MessageInfo {
        mk_info(self.sender0, self.coin)
    }
}

/// Exactly one handler ran, it is `id`, with `args`, and it saw the caller's context.
pub fn check_call(i: &In, w: &World, id: u32, args: [u64; 4], with_info: bool, mutating: bool) {
    let l = echo::log();
    assert!(l.count == 1, "exactly one handler invocation");
    assert!(l.id == id, "the handler declared for this message / outcome");
    assert!(
        l.args[0] == args[0] && l.args[1] == args[1] && l.args[2] == args[2] && l.args[3] == args[3],
        "every value reaches the parameter it was sent for"
    );
    assert!(l.seen.storage == i.s, "caller's storage");
    assert!(w.api.seen.get() == i.a, "caller's api");
    assert!(w.querier.seen.get() == i.q, "caller's querier");
    assert!(l.seen.height == i.height && l.seen.time == i.time, "env.block");
    assert!(l.seen.has_tx == i.tx.is_some(), "env.transaction presence");
    if let Some(ix) = i.tx {
        assert!(l.seen.tx_index == ix, "env.transaction.index");
    }
    assert!(l.seen.contract0 == i.c0, "env.contract.address");
    if with_info {
        assert!(l.seen.sender0 == i.sender0 && l.seen.sender_len == 1, "info.sender");
        assert!(l.seen.nfunds == if i.coin.is_some() { 1 } else { 0 }, "info.funds length");
        if let Some(c) = i.coin {
            assert!(l.seen.amount0 == c, "info.funds[0].amount");
        }
    }
    if mutating {
        assert!(
            w.storage.writes == 1 && w.storage.last_key == MARK_KEY && w.storage.slot == (id & 0xff) as u8,
            "handler's write landed in the caller's storage"
        );
    } else {
        assert!(w.storage.writes == 0);
    }
}

/// No handler ran at all.
pub fn check_no_call(w: &World) {
    let l = echo::log();
    assert!(l.count == 0, "no handler may run");
    assert!(w.storage.writes == 0, "nothing written");
}
