//! "rec-ser": a `Serializer` that records the sequence of serde events into a fixed array.
//! It stands where `serde_json_wasm::Serializer` stands at run time (text layer outside the claim).
//! Records are compared event by event, field by field (no derived `==`: DESIGN P14).

use crate::doc::E;
use serde::ser::{self, Serialize};

pub const K_NONE: u8 = 0;
/// `{ variant: { ..fields } }`
pub const K_STRUCT_VARIANT: u8 = 1;
/// `{ ..fields }`
pub const K_STRUCT: u8 = 2;
pub const K_FIELD: u8 = 3;
pub const K_U64: u8 = 4;
pub const K_BOOL: u8 = 5;
pub const K_STR: u8 = 6;
pub const K_NULL: u8 = 7;
pub const K_END: u8 = 8;
pub const K_UNIT_VARIANT: u8 = 9;
pub const K_NEWTYPE_VARIANT: u8 = 10;
pub const K_SEQ: u8 = 11;
pub const K_MAP: u8 = 12;
pub const K_OTHER: u8 = 13;

#[derive(Clone, Copy)]
pub struct Ev {
    pub k: u8,
    /// variant name / field key (always a `&'static str` coming from the derive)
    pub s: &'static str,
    pub num: u64,
    /// first bytes and length of a serialised string value
    pub sb: [u8; 4],
    pub sl: usize,
}

pub const EV0: Ev = Ev {
    k: K_NONE,
    s: "",
    num: 0,
    sb: [0; 4],
    sl: 0,
};

pub const CAP: usize = 16;

#[derive(Clone, Copy)]
pub struct Rec {
    pub n: usize,
    pub overflow: bool,
    pub ev: [Ev; CAP],
}

impl Rec {
    pub const fn new() -> Self {
        Rec {
            n: 0,
            overflow: false,
            ev: [EV0; CAP],
        }
    }
    fn push(&mut self, e: Ev) {
        if self.n < CAP {
            self.ev[self.n] = e;
            self.n += 1;
        } else {
            self.overflow = true;
        }
    }
    fn push_k(&mut self, k: u8, s: &'static str, num: u64) {
        self.push(Ev {
            k,
            s,
            num,
            sb: [0; 4],
            sl: 0,
        });
    }
}

/// Record `v`'s serde events.
pub fn record<T: Serialize + ?Sized>(v: &T) -> Result<Rec, E> {
    let mut r = Rec::new();
    v.serialize(Ser(&mut r))?;
    Ok(r)
}

/// Event-wise equality of two records.
pub fn rec_eq(a: &Rec, b: &Rec) -> bool {
    if a.n != b.n || a.overflow || b.overflow {
        return false;
    }
    let mut i = 0;
    while i < a.n {
        if !ev_eq(&a.ev[i], &b.ev[i]) {
            return false;
        }
        i += 1;
    }
    true
}

pub fn ev_eq(x: &Ev, y: &Ev) -> bool {
    x.k == y.k
        && crate::sym::str_eq(x.s, y.s)
        && x.num == y.num
        && x.sl == y.sl
        && x.sb[0] == y.sb[0]
        && x.sb[1] == y.sb[1]
        && x.sb[2] == y.sb[2]
        && x.sb[3] == y.sb[3]
}

/// Does event `e` have kind `k`, name `s` (byte-wise) and number `num`?
pub fn ev_is(e: &Ev, k: u8, s: &str, num: u64) -> bool {
    e.k == k && crate::sym::str_eq(e.s, s) && e.num == num
}

pub struct Ser<'r>(pub &'r mut Rec);

impl<'r> ser::Serializer for Ser<'r> {
    type Ok = ();
    type Error = E;
    type SerializeSeq = Ser<'r>;
    type SerializeTuple = Ser<'r>;
    type SerializeTupleStruct = Ser<'r>;
    type SerializeTupleVariant = Ser<'r>;
    type SerializeMap = Ser<'r>;
    type SerializeStruct = Ser<'r>;
    type SerializeStructVariant = Ser<'r>;

    fn serialize_bool(self, v: bool) -> Result<(), E> {
        self.0.push_k(K_BOOL, "", v as u64);
        Ok(())
    }
    fn serialize_i8(self, v: i8) -> Result<(), E> {
        self.0.push_k(K_U64, "i", v as u64);
        Ok(())
    }
    fn serialize_i16(self, v: i16) -> Result<(), E> {
        self.0.push_k(K_U64, "i", v as u64);
        Ok(())
    }
    fn serialize_i32(self, v: i32) -> Result<(), E> {
        self.0.push_k(K_U64, "i", v as u64);
        Ok(())
    }
    fn serialize_i64(self, v: i64) -> Result<(), E> {
        self.0.push_k(K_U64, "i", v as u64);
        Ok(())
    }
    fn serialize_u8(self, v: u8) -> Result<(), E> {
        self.0.push_k(K_U64, "", v as u64);
        Ok(())
    }
    fn serialize_u16(self, v: u16) -> Result<(), E> {
        self.0.push_k(K_U64, "", v as u64);
        Ok(())
    }
    fn serialize_u32(self, v: u32) -> Result<(), E> {
        self.0.push_k(K_U64, "", v as u64);
        Ok(())
    }
    fn serialize_u64(self, v: u64) -> Result<(), E> {
        self.0.push_k(K_U64, "", v);
        Ok(())
    }
    fn serialize_f32(self, _v: f32) -> Result<(), E> {
        self.0.push_k(K_OTHER, "f32", 0);
        Ok(())
    }
    fn serialize_f64(self, _v: f64) -> Result<(), E> {
        self.0.push_k(K_OTHER, "f64", 0);
        Ok(())
    }
    fn serialize_char(self, v: char) -> Result<(), E> {
        self.0.push_k(K_OTHER, "char", v as u64);
        Ok(())
    }
    fn serialize_str(self, v: &str) -> Result<(), E> {
        let b = v.as_bytes();
        let mut sb = [0u8; 4];
        let mut i = 0;
        while i < 4 && i < b.len() {
            sb[i] = b[i];
            i += 1;
        }
        self.0.push(Ev {
            k: K_STR,
            s: "",
            num: 0,
            sb,
            sl: b.len(),
        });
        Ok(())
    }
    fn serialize_bytes(self, v: &[u8]) -> Result<(), E> {
        self.0.push_k(K_OTHER, "bytes", v.len() as u64);
        Ok(())
    }
    fn serialize_none(self) -> Result<(), E> {
        self.0.push_k(K_NULL, "", 0);
        Ok(())
    }
    fn serialize_some<T: Serialize + ?Sized>(self, value: &T) -> Result<(), E> {
        value.serialize(self)
    }
    fn serialize_unit(self) -> Result<(), E> {
        self.0.push_k(K_NULL, "", 0);
        Ok(())
    }
    fn serialize_unit_struct(self, _name: &'static str) -> Result<(), E> {
        self.0.push_k(K_NULL, "", 0);
        Ok(())
    }
    fn serialize_unit_variant(
        self,
        _name: &'static str,
        _idx: u32,
        variant: &'static str,
    ) -> Result<(), E> {
        self.0.push_k(K_UNIT_VARIANT, variant, 0);
        Ok(())
    }
    fn serialize_newtype_struct<T: Serialize + ?Sized>(
        self,
        _name: &'static str,
        value: &T,
    ) -> Result<(), E> {
        value.serialize(self)
    }
    fn serialize_newtype_variant<T: Serialize + ?Sized>(
        self,
        _name: &'static str,
        _idx: u32,
        variant: &'static str,
        value: &T,
    ) -> Result<(), E> {
        self.0.push_k(K_NEWTYPE_VARIANT, variant, 0);
        value.serialize(self)
    }
    fn serialize_seq(self, len: Option<usize>) -> Result<Ser<'r>, E> {
        self.0.push_k(K_SEQ, "", len.unwrap_or(0) as u64);
        Ok(self)
    }
    fn serialize_tuple(self, len: usize) -> Result<Ser<'r>, E> {
        self.0.push_k(K_SEQ, "", len as u64);
        Ok(self)
    }
    fn serialize_tuple_struct(self, _name: &'static str, len: usize) -> Result<Ser<'r>, E> {
        self.0.push_k(K_SEQ, "", len as u64);
        Ok(self)
    }
    fn serialize_tuple_variant(
        self,
        _name: &'static str,
        _idx: u32,
        variant: &'static str,
        len: usize,
    ) -> Result<Ser<'r>, E> {
        self.0.push_k(K_NEWTYPE_VARIANT, variant, 0);
        self.0.push_k(K_SEQ, "", len as u64);
        Ok(self)
    }
    fn serialize_map(self, len: Option<usize>) -> Result<Ser<'r>, E> {
        self.0.push_k(K_MAP, "", len.unwrap_or(0) as u64);
        Ok(self)
    }
    fn serialize_struct(self, _name: &'static str, len: usize) -> Result<Ser<'r>, E> {
        self.0.push_k(K_STRUCT, "", len as u64);
        Ok(self)
    }
    fn serialize_struct_variant(
        self,
        _name: &'static str,
        _idx: u32,
        variant: &'static str,
        len: usize,
    ) -> Result<Ser<'r>, E> {
        self.0.push_k(K_STRUCT_VARIANT, variant, len as u64);
        Ok(self)
    }
    fn collect_str<T: core::fmt::Display + ?Sized>(self, _value: &T) -> Result<(), E> {
        self.0.push_k(K_OTHER, "display", 0);
        Ok(())
    }
}

impl<'r> ser::SerializeSeq for Ser<'r> {
    type Ok = ();
    type Error = E;
    fn serialize_element<T: Serialize + ?Sized>(&mut self, value: &T) -> Result<(), E> {
        value.serialize(Ser(&mut *self.0))
    }
    fn end(self) -> Result<(), E> {
        self.0.push_k(K_END, "", 0);
        Ok(())
    }
}
impl<'r> ser::SerializeTuple for Ser<'r> {
    type Ok = ();
    type Error = E;
    fn serialize_element<T: Serialize + ?Sized>(&mut self, value: &T) -> Result<(), E> {
        value.serialize(Ser(&mut *self.0))
    }
    fn end(self) -> Result<(), E> {
        self.0.push_k(K_END, "", 0);
        Ok(())
    }
}
impl<'r> ser::SerializeTupleStruct for Ser<'r> {
    type Ok = ();
    type Error = E;
    fn serialize_field<T: Serialize + ?Sized>(&mut self, value: &T) -> Result<(), E> {
        value.serialize(Ser(&mut *self.0))
    }
    fn end(self) -> Result<(), E> {
        self.0.push_k(K_END, "", 0);
        Ok(())
    }
}
impl<'r> ser::SerializeTupleVariant for Ser<'r> {
    type Ok = ();
    type Error = E;
    fn serialize_field<T: Serialize + ?Sized>(&mut self, value: &T) -> Result<(), E> {
        value.serialize(Ser(&mut *self.0))
    }
    fn end(self) -> Result<(), E> {
        self.0.push_k(K_END, "", 0);
        Ok(())
    }
}
impl<'r> ser::SerializeMap for Ser<'r> {
    type Ok = ();
    type Error = E;
    fn serialize_key<T: Serialize + ?Sized>(&mut self, key: &T) -> Result<(), E> {
        self.0.push_k(K_FIELD, "", 0);
        key.serialize(Ser(&mut *self.0))
    }
    fn serialize_value<T: Serialize + ?Sized>(&mut self, value: &T) -> Result<(), E> {
        value.serialize(Ser(&mut *self.0))
    }
    fn end(self) -> Result<(), E> {
        self.0.push_k(K_END, "", 0);
        Ok(())
    }
}
impl<'r> ser::SerializeStruct for Ser<'r> {
    type Ok = ();
    type Error = E;
    fn serialize_field<T: Serialize + ?Sized>(
        &mut self,
        key: &'static str,
        value: &T,
    ) -> Result<(), E> {
        self.0.push_k(K_FIELD, key, 0);
        value.serialize(Ser(&mut *self.0))
    }
    fn end(self) -> Result<(), E> {
        self.0.push_k(K_END, "", 0);
        Ok(())
    }
}
impl<'r> ser::SerializeStructVariant for Ser<'r> {
    type Ok = ();
    type Error = E;
    fn serialize_field<T: Serialize + ?Sized>(
        &mut self,
        key: &'static str,
        value: &T,
    ) -> Result<(), E> {
        self.0.push_k(K_FIELD, key, 0);
        value.serialize(Ser(&mut *self.0))
    }
    fn end(self) -> Result<(), E> {
        self.0.push_k(K_END, "", 0);
        Ok(())
    }
}
