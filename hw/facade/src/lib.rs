//! Façade package, also named `sylvia`: everything is the real crate except
//!  * `serde_value` — a bounded, `Copy`, two-level flat model of `serde_cw_value` 0.7.0 (the real
//!    container's recursive drop glue and B-tree are out of CBMC's reach, DESIGN P6/P13);
//!  * `serde_json::to_string` — only used by generated code to build an error *text* (outside the
//!    claim), returns the empty string.
//! The generated code under test (`Contract*Msg::deserialize`) is the real macro output; it resolves
//! `sylvia::…` to this package.
#![allow(clippy::all)]
#![allow(static_mut_refs)]

pub use real_sylvia::*;

/// With feature `intercept_json`: `sylvia::cw_std` is the real cosmwasm-std except that
/// `to_json_binary` records the serde events of the value it is given (what the generated helpers
/// encode as the message body) instead of producing JSON text, and returns a one-byte marker.  The
/// text layer is outside every claim; the recorded events are compared with the wire-shape oracle.
#[cfg(feature = "intercept_json")]
pub mod cw_std {
    pub use real_sylvia::cw_std::*;

    pub static mut ENCODED: Option<support::rec::Rec> = None;
    pub static mut ENCODE_CALLS: u32 = 0;
    pub const MARKER: u8 = 0xA5;

    pub fn to_json_binary<T: real_sylvia::serde::Serialize + ?Sized>(v: &T) -> StdResult<Binary> {
        let r = support::rec::record(v);
        unsafe {
            ENCODED = r.ok();
            ENCODE_CALLS += 1;
        }
        Ok(Binary::from(vec![MARKER]))
    }
}

/// With feature `mt_docs`: `sylvia::cw_std::from_json(bytes)` ignores the bytes and decodes the
/// serde-doc the harness registered in `REGISTERED` (one of four fixed shapes).  This puts the
/// generated `impl cw_multi_test::Contract` (which takes JSON BYTES) under the solver at the serde
/// data-model level; the JSON text layer stays outside the claim.
#[cfg(all(any(feature = "mt_docs", feature = "json_docs"), not(feature = "intercept_json")))]
pub mod cw_std {
    pub use real_sylvia::cw_std::*;
    use support::doc::{Msg, Obj, EMPTY0};

    /// which shape is registered: 0 = {name:{}}, 1 = {name:{k:v}}, 2 = {name:{k1:v1,k2:v2}}, 3 = flat {k1:v1,k2:v2}
    pub static mut DOC_KIND: u8 = 0;
    pub static mut DOC_M0: Msg<'static, 0> = Msg { name: "", body: EMPTY0 };
    pub static mut DOC_M1: Msg<'static, 1> = Msg { name: "", body: Obj { keys: [""], vals: [support::doc::num(0)] } };
    pub static mut DOC_M2: Msg<'static, 2> = Msg { name: "", body: Obj { keys: ["", ""], vals: [support::doc::num(0), support::doc::num(0)] } };
    pub static mut DOC_FLAT: Obj<'static, 2> = Obj { keys: ["", ""], vals: [support::doc::num(0), support::doc::num(0)] };
    pub static mut FROM_JSON_CALLS: u32 = 0;

    pub fn from_json<T: real_sylvia::serde::de::DeserializeOwned>(_bytes: impl AsRef<[u8]>) -> StdResult<T> {
        #[allow(static_mut_refs)]
        let r = unsafe {
            FROM_JSON_CALLS += 1;
            match DOC_KIND {
                0 => T::deserialize(DOC_M0),
                1 => T::deserialize(DOC_M1),
                2 => T::deserialize(DOC_M2),
                _ => T::deserialize(DOC_FLAT),
            }
        };
        r.map_err(|_| StdError::generic_err("decode"))
    }
}

pub mod serde_json {
    pub use real_sylvia::serde_json::*;
    pub fn to_string<T: ?Sized>(_v: &T) -> Result<String, ()> {
        Ok(String::new())
    }
}

pub mod serde_value {
    //! Bounded model of `serde_cw_value` 0.7.0, restricted to what the generated wrapper glue uses:
    //! `Value::deserialize`, `Value::Map(map)`, `map.len()`, `(&map).into_iter()` (first entry),
    //! `Value::String(s)` comparable with `&str`, `val.deserialize_into()`, an error implementing
    //! `Display`.
    //!
    //! Shape of the model: **two levels, flat structs, no recursion, no arena**
    //!   Value  = Bool | U64 | String | Unit | Map(LMap) | Other
    //!   LMap   = up to CAP entries  LStr -> Inner
    //!   Inner  = unit | bool | u64 | string | LMap2 | other          (a struct with a kind byte)
    //!   LMap2  = up to CAP entries  LStr -> Sc2
    //!   Sc2    = unit | bool | u64 | string | other
    //! Anything deeper, wider, or keyed by a non-string is recorded as `other` and raises
    //! `MODEL_OVERFLOW`, which every harness asserts to be false (nothing is silently dropped).
    //! Equal keys overwrite (BTreeMap semantics); iteration order matters to the glue only for
    //! one-entry maps.  (An earlier model kept `Value`s in a static arena; reading enum tags back
    //! from the arena made CBMC unwind the Value -> map -> Value recursion on every path.)

    use real_sylvia::serde::de::{
        self, DeserializeSeed, Deserializer, EnumAccess, MapAccess, VariantAccess, Visitor,
    };
    use real_sylvia::serde::{forward_to_deserialize_any, Deserialize};

    #[derive(Debug)]
    pub struct DeserializerError;
    impl std::fmt::Display for DeserializerError {
        fn fmt(&self, _f: &mut std::fmt::Formatter<'_>) -> std::fmt::Result {
            Ok(())
        }
    }
    impl std::error::Error for DeserializerError {}
    impl de::Error for DeserializerError {
        fn custom<T: std::fmt::Display>(_: T) -> Self {
            DeserializerError
        }
    }

    pub static mut MODEL_OVERFLOW: bool = false;
    fn overflow() {
        unsafe {
            MODEL_OVERFLOW = true;
        }
    }

    /// Inline string of at most `SCAP` bytes (no heap object, no drop glue); longer strings are outside
    /// the model and raise `MODEL_OVERFLOW`.
    pub const SCAP: usize = 8;
    #[derive(Debug, Clone, Copy)]
    pub struct LStr {
        len: usize,
        b: [u8; SCAP],
    }
    const NOSTR: LStr = LStr { len: 0, b: [0; SCAP] };

    impl LStr {
        fn new(v: &str) -> LStr {
            let src = v.as_bytes();
            let mut b = [0u8; SCAP];
            if src.len() > SCAP {
                overflow();
                return NOSTR;
            }
            let mut i = 0;
            while i < src.len() {
                b[i] = src[i];
                i += 1;
            }
            LStr { len: src.len(), b }
        }
        fn as_str(&self) -> &str {
            // bytes were copied from a `&str` of this length
            unsafe { core::str::from_utf8_unchecked(&self.b[..self.len]) }
        }
        fn eq_str(&self, o: &str) -> bool {
            let o = o.as_bytes();
            if o.len() != self.len {
                return false;
            }
            let mut i = 0;
            while i < o.len() {
                if o[i] != self.b[i] {
                    return false;
                }
                i += 1;
            }
            true
        }
    }
    impl PartialEq for LStr {
        fn eq(&self, o: &LStr) -> bool {
            if self.len != o.len {
                return false;
            }
            let mut i = 0;
            while i < self.len {
                if self.b[i] != o.b[i] {
                    return false;
                }
                i += 1;
            }
            true
        }
    }
    /// The generated glue compares `msg == &recv_msg_name` (`&&str` with `&&LStr`).
    impl PartialEq<LStr> for str {
        fn eq(&self, o: &LStr) -> bool {
            o.eq_str(self)
        }
    }

    struct LStrVisitor;
    impl<'de> Visitor<'de> for LStrVisitor {
        type Value = Option<LStr>;
        fn expecting(&self, _f: &mut std::fmt::Formatter) -> std::fmt::Result {
            Ok(())
        }
        fn visit_str<E>(self, v: &str) -> Result<Option<LStr>, E> {
            Ok(Some(LStr::new(v)))
        }
        fn visit_bool<E>(self, _v: bool) -> Result<Option<LStr>, E> {
            Ok(None)
        }
        fn visit_u64<E>(self, _v: u64) -> Result<Option<LStr>, E> {
            Ok(None)
        }
        fn visit_unit<E>(self) -> Result<Option<LStr>, E> {
            Ok(None)
        }
    }
    /// map key: a string, or `None` for anything else (outside the model)
    struct Key(Option<LStr>);
    impl<'de> Deserialize<'de> for Key {
        fn deserialize<D: Deserializer<'de>>(d: D) -> Result<Self, D::Error> {
            d.deserialize_any(LStrVisitor).map(Key)
        }
    }

    pub const CAP: usize = 3;
    const K_UNIT: u8 = 0;
    const K_BOOL: u8 = 1;
    const K_U64: u8 = 2;
    const K_STR: u8 = 3;
    const K_MAP: u8 = 4;
    const K_OTHER: u8 = 5;

    /// second-level scalar
    #[derive(Debug, Clone, Copy, PartialEq)]
    pub struct Sc2 {
        kind: u8,
        num: u64,
        s: LStr,
    }
    const SC0: Sc2 = Sc2 { kind: K_UNIT, num: 0, s: NOSTR };

    struct Sc2Visitor;
    impl<'de> Visitor<'de> for Sc2Visitor {
        type Value = Sc2;
        fn expecting(&self, _f: &mut std::fmt::Formatter) -> std::fmt::Result {
            Ok(())
        }
        fn visit_bool<E>(self, v: bool) -> Result<Sc2, E> {
            Ok(Sc2 { kind: K_BOOL, num: v as u64, s: NOSTR })
        }
        fn visit_u32<E>(self, v: u32) -> Result<Sc2, E> {
            Ok(Sc2 { kind: K_U64, num: v as u64, s: NOSTR })
        }
        fn visit_u64<E>(self, v: u64) -> Result<Sc2, E> {
            Ok(Sc2 { kind: K_U64, num: v, s: NOSTR })
        }
        fn visit_str<E>(self, v: &str) -> Result<Sc2, E> {
            Ok(Sc2 { kind: K_STR, num: 0, s: LStr::new(v) })
        }
        fn visit_unit<E>(self) -> Result<Sc2, E> {
            Ok(SC0)
        }
        fn visit_none<E>(self) -> Result<Sc2, E> {
            Ok(SC0)
        }
        fn visit_map<A: MapAccess<'de>>(self, _a: A) -> Result<Sc2, A::Error> {
            overflow(); // third nesting level: outside the model
            Ok(Sc2 { kind: K_OTHER, num: 0, s: NOSTR })
        }
        fn visit_seq<A: de::SeqAccess<'de>>(self, _a: A) -> Result<Sc2, A::Error> {
            overflow();
            Ok(Sc2 { kind: K_OTHER, num: 0, s: NOSTR })
        }
    }
    impl<'de> Deserialize<'de> for Sc2 {
        fn deserialize<D: Deserializer<'de>>(d: D) -> Result<Self, D::Error> {
            d.deserialize_any(Sc2Visitor)
        }
    }
    impl<'de> Deserializer<'de> for Sc2 {
        type Error = DeserializerError;
        fn deserialize_any<V: Visitor<'de>>(self, visitor: V) -> Result<V::Value, DeserializerError> {
            match self.kind {
                K_UNIT => visitor.visit_unit(),
                K_BOOL => visitor.visit_bool(self.num != 0),
                K_U64 => visitor.visit_u64(self.num),
                K_STR => visitor.visit_str(self.s.as_str()),
                _ => Err(DeserializerError),
            }
        }
        fn deserialize_option<V: Visitor<'de>>(self, visitor: V) -> Result<V::Value, DeserializerError> {
            if self.kind == K_UNIT {
                visitor.visit_none()
            } else {
                visitor.visit_some(self)
            }
        }
        fn deserialize_newtype_struct<V: Visitor<'de>>(self, _n: &'static str, visitor: V) -> Result<V::Value, DeserializerError> {
            visitor.visit_newtype_struct(self)
        }
        fn deserialize_enum<V: Visitor<'de>>(self, _n: &'static str, _vs: &'static [&'static str], visitor: V) -> Result<V::Value, DeserializerError> {
            if self.kind == K_STR {
                visitor.visit_enum(EnumDe { variant: self.s, value: None })
            } else {
                Err(DeserializerError)
            }
        }
        // serde's IgnoredAny discards whatever it is given
        fn deserialize_ignored_any<V: Visitor<'de>>(self, visitor: V) -> Result<V::Value, DeserializerError> {
            visitor.visit_unit()
        }
        forward_to_deserialize_any! { bool u8 u16 u32 u64 i8 i16 i32 i64 i128 u128 f32 f64 char str string unit seq
        bytes byte_buf map unit_struct tuple_struct struct tuple identifier }
    }

    /// second-level map
    #[derive(Debug, Clone, Copy, PartialEq)]
    pub struct LMap2 {
        n: usize,
        keys: [LStr; CAP],
        vals: [Sc2; CAP],
    }
    const MAP2_0: LMap2 = LMap2 { n: 0, keys: [NOSTR; CAP], vals: [SC0; CAP] };
    impl LMap2 {
        fn insert(&mut self, k: LStr, v: Sc2) {
            let mut i = 0;
            while i < self.n {
                if self.keys[i] == k {
                    self.vals[i] = v;
                    return;
                }
                i += 1;
            }
            if self.n == CAP {
                overflow();
                return;
            }
            self.keys[self.n] = k;
            self.vals[self.n] = v;
            self.n += 1;
        }
    }
    struct Map2De {
        m: LMap2,
        i: usize,
    }
    impl<'de> MapAccess<'de> for Map2De {
        type Error = DeserializerError;
        fn next_key_seed<K: DeserializeSeed<'de>>(&mut self, seed: K) -> Result<Option<K::Value>, DeserializerError> {
            if self.i < self.m.n {
                seed.deserialize(StrDe(self.m.keys[self.i])).map(Some)
            } else {
                Ok(None)
            }
        }
        fn next_value_seed<V: DeserializeSeed<'de>>(&mut self, seed: V) -> Result<V::Value, DeserializerError> {
            let v = self.m.vals[self.i];
            self.i += 1;
            seed.deserialize(v)
        }
    }

    struct StrDe(LStr);
    impl<'de> Deserializer<'de> for StrDe {
        type Error = DeserializerError;
        fn deserialize_any<V: Visitor<'de>>(self, visitor: V) -> Result<V::Value, DeserializerError> {
            visitor.visit_str(self.0.as_str())
        }
        forward_to_deserialize_any! { bool u8 u16 u32 u64 i8 i16 i32 i64 i128 u128 f32 f64 char str string unit seq
        bytes byte_buf map unit_struct newtype_struct tuple_struct struct tuple identifier option enum ignored_any }
    }

    /// first-level value
    #[derive(Debug, Clone, Copy, PartialEq)]
    pub struct Inner {
        kind: u8,
        num: u64,
        s: LStr,
        map: LMap2,
    }
    const INNER0: Inner = Inner { kind: K_UNIT, num: 0, s: NOSTR, map: MAP2_0 };

    struct InnerVisitor;
    impl<'de> Visitor<'de> for InnerVisitor {
        type Value = Inner;
        fn expecting(&self, _f: &mut std::fmt::Formatter) -> std::fmt::Result {
            Ok(())
        }
        fn visit_bool<E>(self, v: bool) -> Result<Inner, E> {
            Ok(Inner { kind: K_BOOL, num: v as u64, ..INNER0 })
        }
        fn visit_u32<E>(self, v: u32) -> Result<Inner, E> {
            Ok(Inner { kind: K_U64, num: v as u64, ..INNER0 })
        }
        fn visit_u64<E>(self, v: u64) -> Result<Inner, E> {
            Ok(Inner { kind: K_U64, num: v, ..INNER0 })
        }
        fn visit_str<E>(self, v: &str) -> Result<Inner, E> {
            Ok(Inner { kind: K_STR, s: LStr::new(v), ..INNER0 })
        }
        fn visit_unit<E>(self) -> Result<Inner, E> {
            Ok(INNER0)
        }
        fn visit_none<E>(self) -> Result<Inner, E> {
            Ok(INNER0)
        }
        fn visit_seq<A: de::SeqAccess<'de>>(self, _a: A) -> Result<Inner, A::Error> {
            overflow();
            Ok(Inner { kind: K_OTHER, ..INNER0 })
        }
        fn visit_map<A: MapAccess<'de>>(self, mut a: A) -> Result<Inner, A::Error> {
            let mut m = MAP2_0;
            while let Some((k, v)) = a.next_entry::<Key, Sc2>()? {
                match k.0 {
                    Some(k) => m.insert(k, v),
                    None => overflow(),
                }
            }
            Ok(Inner { kind: K_MAP, map: m, ..INNER0 })
        }
    }
    impl<'de> Deserialize<'de> for Inner {
        fn deserialize<D: Deserializer<'de>>(d: D) -> Result<Self, D::Error> {
            d.deserialize_any(InnerVisitor)
        }
    }
    impl<'de> Deserializer<'de> for Inner {
        type Error = DeserializerError;
        fn deserialize_any<V: Visitor<'de>>(self, visitor: V) -> Result<V::Value, DeserializerError> {
            match self.kind {
                K_UNIT => visitor.visit_unit(),
                K_BOOL => visitor.visit_bool(self.num != 0),
                K_U64 => visitor.visit_u64(self.num),
                K_STR => visitor.visit_str(self.s.as_str()),
                K_MAP => visitor.visit_map(Map2De { m: self.map, i: 0 }),
                _ => Err(DeserializerError),
            }
        }
        fn deserialize_option<V: Visitor<'de>>(self, visitor: V) -> Result<V::Value, DeserializerError> {
            if self.kind == K_UNIT {
                visitor.visit_none()
            } else {
                visitor.visit_some(self)
            }
        }
        fn deserialize_newtype_struct<V: Visitor<'de>>(self, _n: &'static str, visitor: V) -> Result<V::Value, DeserializerError> {
            visitor.visit_newtype_struct(self)
        }
        fn deserialize_enum<V: Visitor<'de>>(self, _n: &'static str, _vs: &'static [&'static str], visitor: V) -> Result<V::Value, DeserializerError> {
            match self.kind {
                K_STR => visitor.visit_enum(EnumDe { variant: self.s, value: None }),
                K_MAP => {
                    if self.map.n != 1 {
                        return Err(DeserializerError);
                    }
                    // a nested enum body would be a third level: scalars only
                    visitor.visit_enum(Sc2EnumDe { variant: self.map.keys[0], value: self.map.vals[0] })
                }
                _ => Err(DeserializerError),
            }
        }
        fn deserialize_ignored_any<V: Visitor<'de>>(self, visitor: V) -> Result<V::Value, DeserializerError> {
            visitor.visit_unit()
        }
        forward_to_deserialize_any! { bool u8 u16 u32 u64 i8 i16 i32 i64 i128 u128 f32 f64 char str string unit seq
        bytes byte_buf map unit_struct tuple_struct struct tuple identifier }
    }

    /// top-level map
    #[derive(Debug, Clone, Copy, PartialEq)]
    pub struct LMap {
        n: usize,
        keys: [LStr; CAP],
        vals: [Inner; CAP],
    }
    impl LMap {
        pub fn len(&self) -> usize {
            self.n
        }
        fn insert(&mut self, k: LStr, v: Inner) {
            let mut i = 0;
            while i < self.n {
                if self.keys[i] == k {
                    self.vals[i] = v;
                    return;
                }
                i += 1;
            }
            if self.n == CAP {
                overflow();
                return;
            }
            self.keys[self.n] = k;
            self.vals[self.n] = v;
            self.n += 1;
        }
    }

    pub struct LIter {
        m: LMap,
        i: usize,
    }
    impl Iterator for LIter {
        /// `.0` is the key as a `Value` (the glue matches it against `Value::String`)
        type Item = (Value, Inner);
        fn next(&mut self) -> Option<Self::Item> {
            if self.i < self.m.n {
                let e = (Value::String(self.m.keys[self.i]), self.m.vals[self.i]);
                self.i += 1;
                Some(e)
            } else {
                None
            }
        }
    }
    impl<'a> IntoIterator for &'a LMap {
        type Item = (Value, Inner);
        type IntoIter = LIter;
        fn into_iter(self) -> LIter {
            LIter { m: *self, i: 0 }
        }
    }

    #[derive(Debug, Clone, Copy, PartialEq)]
    pub enum Value {
        Bool(bool),
        U64(u64),
        String(LStr),
        Unit,
        Map(LMap),
        Other,
    }

    struct ValueVisitor;
    impl<'de> Visitor<'de> for ValueVisitor {
        type Value = Value;
        fn expecting(&self, _f: &mut std::fmt::Formatter) -> std::fmt::Result {
            Ok(())
        }
        fn visit_bool<E>(self, v: bool) -> Result<Value, E> {
            Ok(Value::Bool(v))
        }
        fn visit_u32<E>(self, v: u32) -> Result<Value, E> {
            Ok(Value::U64(v as u64))
        }
        fn visit_u64<E>(self, v: u64) -> Result<Value, E> {
            Ok(Value::U64(v))
        }
        fn visit_str<E>(self, v: &str) -> Result<Value, E> {
            Ok(Value::String(LStr::new(v)))
        }
        fn visit_unit<E>(self) -> Result<Value, E> {
            Ok(Value::Unit)
        }
        fn visit_none<E>(self) -> Result<Value, E> {
            Ok(Value::Unit)
        }
        fn visit_seq<A: de::SeqAccess<'de>>(self, _a: A) -> Result<Value, A::Error> {
            Ok(Value::Other)
        }
        fn visit_map<A: MapAccess<'de>>(self, mut a: A) -> Result<Value, A::Error> {
            let mut m = LMap { n: 0, keys: [NOSTR; CAP], vals: [INNER0; CAP] };
            while let Some((k, v)) = a.next_entry::<Key, Inner>()? {
                match k.0 {
                    Some(k) => m.insert(k, v),
                    None => overflow(),
                }
            }
            Ok(Value::Map(m))
        }
    }
    impl<'de> Deserialize<'de> for Value {
        fn deserialize<D: Deserializer<'de>>(d: D) -> Result<Self, D::Error> {
            d.deserialize_any(ValueVisitor)
        }
    }
    impl Value {
        pub fn deserialize_into<'de, T: Deserialize<'de>>(self) -> Result<T, DeserializerError> {
            T::deserialize(self)
        }
    }

    struct MapDe {
        m: LMap,
        i: usize,
    }
    impl<'de> MapAccess<'de> for MapDe {
        type Error = DeserializerError;
        fn next_key_seed<K: DeserializeSeed<'de>>(&mut self, seed: K) -> Result<Option<K::Value>, DeserializerError> {
            if self.i < self.m.n {
                seed.deserialize(StrDe(self.m.keys[self.i])).map(Some)
            } else {
                Ok(None)
            }
        }
        fn next_value_seed<V: DeserializeSeed<'de>>(&mut self, seed: V) -> Result<V::Value, DeserializerError> {
            let v = self.m.vals[self.i];
            self.i += 1;
            seed.deserialize(v)
        }
    }

    impl<'de> Deserializer<'de> for Value {
        type Error = DeserializerError;
        fn deserialize_any<V: Visitor<'de>>(self, visitor: V) -> Result<V::Value, DeserializerError> {
            match self {
                Value::Bool(v) => visitor.visit_bool(v),
                Value::U64(v) => visitor.visit_u64(v),
                Value::String(v) => visitor.visit_str(v.as_str()),
                Value::Unit => visitor.visit_unit(),
                Value::Map(m) => visitor.visit_map(MapDe { m, i: 0 }),
                Value::Other => Err(DeserializerError),
            }
        }
        fn deserialize_option<V: Visitor<'de>>(self, visitor: V) -> Result<V::Value, DeserializerError> {
            match self {
                Value::Unit => visitor.visit_none(),
                _ => visitor.visit_some(self),
            }
        }
        /// mirrors serde_cw_value: a one-entry map is `{variant: body}`, a string a unit variant
        fn deserialize_enum<V: Visitor<'de>>(self, _n: &'static str, _vs: &'static [&'static str], visitor: V) -> Result<V::Value, DeserializerError> {
            match self {
                Value::Map(m) => {
                    if m.n != 1 {
                        return Err(DeserializerError);
                    }
                    visitor.visit_enum(EnumDe { variant: m.keys[0], value: Some(m.vals[0]) })
                }
                Value::String(s) => visitor.visit_enum(EnumDe { variant: s, value: None }),
                _ => Err(DeserializerError),
            }
        }
        fn deserialize_newtype_struct<V: Visitor<'de>>(self, _n: &'static str, visitor: V) -> Result<V::Value, DeserializerError> {
            visitor.visit_newtype_struct(self)
        }
        fn deserialize_ignored_any<V: Visitor<'de>>(self, visitor: V) -> Result<V::Value, DeserializerError> {
            visitor.visit_unit()
        }
        forward_to_deserialize_any! { bool u8 u16 u32 u64 i8 i16 i32 i64 i128 u128 f32 f64 char str string unit seq
        bytes byte_buf map unit_struct tuple_struct struct tuple identifier }
    }

    struct EnumDe {
        variant: LStr,
        value: Option<Inner>,
    }
    impl<'de> EnumAccess<'de> for EnumDe {
        type Error = DeserializerError;
        type Variant = VariantDe;
        fn variant_seed<S: DeserializeSeed<'de>>(self, seed: S) -> Result<(S::Value, VariantDe), DeserializerError> {
            let v = VariantDe(self.value);
            seed.deserialize(StrDe(self.variant)).map(|x| (x, v))
        }
    }
    struct VariantDe(Option<Inner>);
    impl<'de> VariantAccess<'de> for VariantDe {
        type Error = DeserializerError;
        fn unit_variant(self) -> Result<(), DeserializerError> {
            match self.0 {
                Some(v) => <() as Deserialize>::deserialize(v),
                None => Ok(()),
            }
        }
        fn newtype_variant_seed<T: DeserializeSeed<'de>>(self, seed: T) -> Result<T::Value, DeserializerError> {
            match self.0 {
                Some(v) => seed.deserialize(v),
                None => Err(DeserializerError),
            }
        }
        fn tuple_variant<V: Visitor<'de>>(self, _l: usize, _v: V) -> Result<V::Value, DeserializerError> {
            Err(DeserializerError)
        }
        fn struct_variant<V: Visitor<'de>>(self, _f: &'static [&'static str], visitor: V) -> Result<V::Value, DeserializerError> {
            match self.0 {
                Some(v) if v.kind == K_MAP => visitor.visit_map(Map2De { m: v.map, i: 0 }),
                _ => Err(DeserializerError),
            }
        }
    }

    struct Sc2EnumDe {
        variant: LStr,
        value: Sc2,
    }
    impl<'de> EnumAccess<'de> for Sc2EnumDe {
        type Error = DeserializerError;
        type Variant = Sc2VariantDe;
        fn variant_seed<S: DeserializeSeed<'de>>(self, seed: S) -> Result<(S::Value, Sc2VariantDe), DeserializerError> {
            let v = Sc2VariantDe(self.value);
            seed.deserialize(StrDe(self.variant)).map(|x| (x, v))
        }
    }
    struct Sc2VariantDe(Sc2);
    impl<'de> VariantAccess<'de> for Sc2VariantDe {
        type Error = DeserializerError;
        fn unit_variant(self) -> Result<(), DeserializerError> {
            <() as Deserialize>::deserialize(self.0)
        }
        fn newtype_variant_seed<T: DeserializeSeed<'de>>(self, seed: T) -> Result<T::Value, DeserializerError> {
            seed.deserialize(self.0)
        }
        fn tuple_variant<V: Visitor<'de>>(self, _l: usize, _v: V) -> Result<V::Value, DeserializerError> {
            Err(DeserializerError)
        }
        fn struct_variant<V: Visitor<'de>>(self, _f: &'static [&'static str], _visitor: V) -> Result<V::Value, DeserializerError> {
            Err(DeserializerError)
        }
    }
}
