//! Façade package, also named `sylvia`: everything is the real crate except
//!  * `serde_value` — a bounded, `Copy`, arena-backed model of `serde_cw_value` 0.7.0 (the real
//!    container's recursive drop glue and B-tree are out of CBMC's reach, DESIGN P6/P13);
//!  * `serde_json::to_string` — only used by generated code to build an error *text* (outside the
//!    claim), returns the empty string.
//! The generated code under test (`Contract*Msg::deserialize`) is the real macro output; it resolves
//! `sylvia::…` to this package.
#![allow(clippy::all)]
#![allow(static_mut_refs)]

pub use real_sylvia::*;

pub mod serde_json {
    pub use real_sylvia::serde_json::*;
    pub fn to_string<T: ?Sized>(_v: &T) -> Result<String, ()> {
        Ok(String::new())
    }
}

pub mod serde_value {
    use real_sylvia::serde::de::{
        self, DeserializeSeed, Deserializer, EnumAccess, MapAccess, VariantAccess, Visitor,
    };
    use real_sylvia::serde::{forward_to_deserialize_any, Deserialize};

    #[derive(Debug)]
    pub struct DeserializerError;
    impl std::fmt::Display for DeserializerError {
        fn fmt(&self, _f: &mut std::fmt::Formatter<'_>) -> std::fmt::Result {
            Ok(())
        }
    }
    impl std::error::Error for DeserializerError {}
    impl de::Error for DeserializerError {
        fn custom<T: std::fmt::Display>(_: T) -> Self {
            DeserializerError
        }
    }

    /// Leaked string (no drop glue).
    #[derive(Debug, Clone, Copy)]
    pub struct LStr(pub &'static str);

    fn bytes_eq(a: &str, b: &str) -> bool {
        let (a, b) = (a.as_bytes(), b.as_bytes());
        if a.len() != b.len() {
            return false;
        }
        let mut i = 0;
        while i < a.len() {
            if a[i] != b[i] {
                return false;
            }
            i += 1;
        }
        true
    }
    impl PartialEq for LStr {
        fn eq(&self, o: &LStr) -> bool {
            bytes_eq(self.0, o.0)
        }
    }
    /// The generated glue compares `&&str == &String`-like: `msg == &recv_msg_name`.
    impl PartialEq<LStr> for str {
        fn eq(&self, o: &LStr) -> bool {
            bytes_eq(self, o.0)
        }
    }
    impl<'a> PartialEq<LStr> for &'a str {
        fn eq(&self, o: &LStr) -> bool {
            bytes_eq(self, o.0)
        }
    }
    impl<'a, 'b> PartialEq<&'b LStr> for &'a str {
        fn eq(&self, o: &&'b LStr) -> bool {
            bytes_eq(self, o.0)
        }
    }

    #[derive(Debug, Clone, Copy, PartialEq)]
    pub enum Value {
        Bool(bool),
        U64(u64),
        String(LStr),
        Unit,
        Map(LMap),
        Other,
    }

    /// Entries per map.  A document with more entries is *rejected by the model* (`capacity` error);
    /// harnesses never feed one (they assume the shape), so nothing is silently dropped.
    pub const CAP: usize = 3;
    const ARENA: usize = 16;
    static mut KEYS: [Value; ARENA] = [Value::Unit; ARENA];
    static mut VALS: [Value; ARENA] = [Value::Unit; ARENA];
    static mut NEXT: usize = 0;
    /// set when the model ran out of capacity: the harness asserts it stayed false
    pub static mut MODEL_OVERFLOW: bool = false;

    #[derive(Debug, Clone, Copy, PartialEq)]
    pub struct LMap {
        n: usize,
        slot: [usize; CAP],
    }

    impl LMap {
        pub fn len(&self) -> usize {
            self.n
        }
        fn get(&self, i: usize) -> (&'static Value, &'static Value) {
            unsafe {
                (
                    &*core::ptr::addr_of!(KEYS[self.slot[i]]),
                    &*core::ptr::addr_of!(VALS[self.slot[i]]),
                )
            }
        }
        /// BTreeMap semantics for the subset used: equal keys overwrite.  (Iteration order of a
        /// one-entry map is trivially the B-tree's; the glue only ever iterates one-entry maps.)
        fn insert(&mut self, k: Value, v: Value) -> bool {
            let mut i = 0;
            while i < self.n {
                if *self.get(i).0 == k {
                    unsafe {
                        VALS[self.slot[i]] = v;
                    }
                    return true;
                }
                i += 1;
            }
            if self.n == CAP {
                return false;
            }
            unsafe {
                let s = NEXT;
                if s >= ARENA {
                    return false;
                }
                NEXT += 1;
                KEYS[s] = k;
                VALS[s] = v;
                self.slot[self.n] = s;
            }
            self.n += 1;
            true
        }
    }

    pub struct LIter {
        m: LMap,
        i: usize,
    }
    impl Iterator for LIter {
        type Item = (&'static Value, &'static Value);
        fn next(&mut self) -> Option<Self::Item> {
            if self.i < self.m.n {
                let e = self.m.get(self.i);
                self.i += 1;
                Some(e)
            } else {
                None
            }
        }
    }
    impl<'a> IntoIterator for &'a LMap {
        type Item = (&'static Value, &'static Value);
        type IntoIter = LIter;
        fn into_iter(self) -> LIter {
            LIter { m: *self, i: 0 }
        }
    }

    struct ValueVisitor;
    impl<'de> Visitor<'de> for ValueVisitor {
        type Value = Value;
        fn expecting(&self, _f: &mut std::fmt::Formatter) -> std::fmt::Result {
            Ok(())
        }
        fn visit_bool<E>(self, v: bool) -> Result<Value, E> {
            Ok(Value::Bool(v))
        }
        fn visit_u32<E>(self, v: u32) -> Result<Value, E> {
            Ok(Value::U64(v as u64))
        }
        fn visit_u64<E>(self, v: u64) -> Result<Value, E> {
            Ok(Value::U64(v))
        }
        fn visit_str<E>(self, v: &str) -> Result<Value, E> {
            Ok(Value::String(LStr(Box::leak(v.to_owned().into_boxed_str()))))
        }
        fn visit_unit<E>(self) -> Result<Value, E> {
            Ok(Value::Unit)
        }
        fn visit_none<E>(self) -> Result<Value, E> {
            Ok(Value::Unit)
        }
        fn visit_seq<A: de::SeqAccess<'de>>(self, _a: A) -> Result<Value, A::Error> {
            Ok(Value::Other)
        }
        fn visit_map<A: MapAccess<'de>>(self, mut a: A) -> Result<Value, A::Error> {
            let mut m = LMap {
                n: 0,
                slot: [0; CAP],
            };
            while let Some((k, v)) = a.next_entry::<Value, Value>()? {
                if !m.insert(k, v) {
                    unsafe {
                        MODEL_OVERFLOW = true;
                    }
                    return Err(de::Error::custom("model capacity"));
                }
            }
            Ok(Value::Map(m))
        }
    }
    impl<'de> Deserialize<'de> for Value {
        fn deserialize<D: Deserializer<'de>>(d: D) -> Result<Self, D::Error> {
            d.deserialize_any(ValueVisitor)
        }
    }
    impl Value {
        pub fn deserialize_into<'de, T: Deserialize<'de>>(self) -> Result<T, DeserializerError> {
            T::deserialize(self)
        }
    }

    struct MapDe {
        m: LMap,
        i: usize,
    }
    impl<'de> MapAccess<'de> for MapDe {
        type Error = DeserializerError;
        fn next_key_seed<K: DeserializeSeed<'de>>(
            &mut self,
            seed: K,
        ) -> Result<Option<K::Value>, DeserializerError> {
            if self.i < self.m.n {
                seed.deserialize(*self.m.get(self.i).0).map(Some)
            } else {
                Ok(None)
            }
        }
        fn next_value_seed<V: DeserializeSeed<'de>>(
            &mut self,
            seed: V,
        ) -> Result<V::Value, DeserializerError> {
            let v = *self.m.get(self.i).1;
            self.i += 1;
            seed.deserialize(v)
        }
    }

    impl<'de> Deserializer<'de> for Value {
        type Error = DeserializerError;
        fn deserialize_any<V: Visitor<'de>>(
            self,
            visitor: V,
        ) -> Result<V::Value, DeserializerError> {
            match self {
                Value::Bool(v) => visitor.visit_bool(v),
                Value::U64(v) => visitor.visit_u64(v),
                Value::String(v) => visitor.visit_str(v.0),
                Value::Unit => visitor.visit_unit(),
                Value::Map(m) => visitor.visit_map(MapDe { m, i: 0 }),
                Value::Other => Err(DeserializerError),
            }
        }
        fn deserialize_option<V: Visitor<'de>>(
            self,
            visitor: V,
        ) -> Result<V::Value, DeserializerError> {
            match self {
                Value::Unit => visitor.visit_none(),
                _ => visitor.visit_some(self),
            }
        }
        fn deserialize_enum<V: Visitor<'de>>(
            self,
            _n: &'static str,
            _vs: &'static [&'static str],
            visitor: V,
        ) -> Result<V::Value, DeserializerError> {
            let (variant, value) = match self {
                Value::Map(m) => {
                    if m.n != 1 {
                        return Err(DeserializerError);
                    }
                    let (k, v) = m.get(0);
                    (*k, Some(*v))
                }
                Value::String(s) => (Value::String(s), None),
                _ => return Err(DeserializerError),
            };
            visitor.visit_enum(EnumDe { variant, value })
        }
        fn deserialize_newtype_struct<V: Visitor<'de>>(
            self,
            _n: &'static str,
            visitor: V,
        ) -> Result<V::Value, DeserializerError> {
            visitor.visit_newtype_struct(self)
        }
        // serde's IgnoredAny discards whatever it is given: answering directly is observationally the
        // same and removes an unbounded recursion.
        fn deserialize_ignored_any<V: Visitor<'de>>(
            self,
            visitor: V,
        ) -> Result<V::Value, DeserializerError> {
            visitor.visit_unit()
        }
        forward_to_deserialize_any! { bool u8 u16 u32 u64 i8 i16 i32 i64 i128 u128 f32 f64 char str string unit seq
        bytes byte_buf map unit_struct tuple_struct struct tuple identifier }
    }

    struct EnumDe {
        variant: Value,
        value: Option<Value>,
    }
    impl<'de> EnumAccess<'de> for EnumDe {
        type Error = DeserializerError;
        type Variant = VariantDe;
        fn variant_seed<S: DeserializeSeed<'de>>(
            self,
            seed: S,
        ) -> Result<(S::Value, VariantDe), DeserializerError> {
            let v = VariantDe(self.value);
            seed.deserialize(self.variant).map(|x| (x, v))
        }
    }
    struct VariantDe(Option<Value>);
    impl<'de> VariantAccess<'de> for VariantDe {
        type Error = DeserializerError;
        fn unit_variant(self) -> Result<(), DeserializerError> {
            match self.0 {
                Some(v) => <() as Deserialize>::deserialize(v),
                None => Ok(()),
            }
        }
        fn newtype_variant_seed<T: DeserializeSeed<'de>>(
            self,
            seed: T,
        ) -> Result<T::Value, DeserializerError> {
            match self.0 {
                Some(v) => seed.deserialize(v),
                None => Err(DeserializerError),
            }
        }
        fn tuple_variant<V: Visitor<'de>>(
            self,
            _l: usize,
            _v: V,
        ) -> Result<V::Value, DeserializerError> {
            Err(DeserializerError)
        }
        fn struct_variant<V: Visitor<'de>>(
            self,
            _f: &'static [&'static str],
            visitor: V,
        ) -> Result<V::Value, DeserializerError> {
            match self.0 {
                Some(Value::Map(m)) => visitor.visit_map(MapDe { m, i: 0 }),
                _ => Err(DeserializerError),
            }
        }
    }
}
