//! C06 — entry points exist exactly for defined, non-overridden kinds and forward calls.
//!
//! Solver part: every entry point a configuration must emit forwards to dispatch (symbolic message /
//! env / info / handler outcome).  Existence of the expected entry points is a compile gate: the
//! harnesses name them.  Absence of the overridden ones is a token-level fact outside the claim.
#![allow(clippy::all)]
#![allow(dead_code, unused_imports, unused_mut, static_mut_refs, deprecated)]

#[path = "../../corpus/ovr.rs"]
pub mod ovr;

include!("ovr_exist.rs");

#[cfg(kani)]
mod h {
    use crate::ovr::OvErr;
    use support::call::{any_in, check_call, In};
    use support::echo;
    use support::stubs::{bt_disabled, fmt_stub};
    use sylvia::cw_std::{Binary, Empty, Reply, Response, SubMsgResponse, SubMsgResult};

    fn check_resp(i: &In, r: &Result<Response<Empty>, OvErr>) {
        match r {
            Ok(resp) => {
                let (has, d0, len) = echo::resp_data(resp);
                assert!(!i.ctl.fail && has && len == 1 && d0 == i.ctl.data, "dispatch outcome returned as is");
                assert!(resp.messages.is_empty() && resp.attributes.is_empty() && resp.events.is_empty());
            }
            Err(OvErr::Mine(c)) => assert!(i.ctl.fail && *c == i.ctl.code, "handler error with the contract's error type"),
            Err(OvErr::Std(_)) => assert!(false, "no StdError expected"),
        }
    }

    fn check_qresp(i: &In, r: &Result<Binary, OvErr>) {
        match r {
            Ok(bin) => {
                let b = bin.as_slice();
                assert!(!i.ctl.fail && b.len() == 7 && b[2] == b'v' && b[5] == b'0' + i.ctl.digit, "query result");
            }
            Err(OvErr::Mine(c)) => assert!(i.ctl.fail && *c == i.ctl.code),
            Err(OvErr::Std(_)) => assert!(false),
        }
    }

    include!("ovr_h.rs");

    // @PLAYBACK h@
}
