//! Side-by-side validation (native, no solver): every document of the list is decoded
//!   * by the REAL generated wrapper over the REAL `serde_cw_value` from REAL JSON text
//!     (`sylvia::cw_std::from_json`), and
//!   * by the façade build of the same corpus from the equivalent serde-doc (what the Kani
//!     harnesses of C03/C04 run),
//! and the outcomes (accepted?, which part, re-encoded JSON) must agree.  A disagreement means the
//! container model or the serde-doc drivers misrepresent the real code: the C03/C04 checks are then
//! reported as broken (exit 2), never as a finding.
#![allow(clippy::all)]
#![allow(dead_code, unused_imports, non_snake_case)]

#[path = "../../corpus/basic.rs"]
pub mod basic;

#[cfg(test)]
mod tests {
    use crate::basic::ct::sv::{ContractExecMsg, ContractQueryMsg, ContractSudoMsg};
    use c03::glue::basic3;
    use support::doc::*;
    use sylvia::cw_std::{from_json, to_json_string};

    /// Same verdict function as `c03::glue::glue3!`, over real JSON text and the real container:
    /// 0 = nobody accepts and the wrapper rejects, 1..3 = the accepting part (wrapper agrees, payload
    /// equal), 99 = the property is violated on this document.
    macro_rules! real3 {
        ($name:ident, $wrap:ident, $pa:ty, $pb:ty, $pc:ty) => {
            fn $name(text: &str) -> u8 {
                let w = from_json::<$wrap>(text.as_bytes());
                let a = from_json::<$pa>(text.as_bytes());
                let b = from_json::<$pb>(text.as_bytes());
                let c = from_json::<$pc>(text.as_bytes());
                match (&w, &a, &b, &c) {
                    (Ok($wrap::Ifa(x)), Ok(p), Err(_), Err(_)) if x == p => 1,
                    (Ok($wrap::Ifb(x)), Err(_), Ok(p), Err(_)) if x == p => 2,
                    (Ok($wrap::Ct(x)), Err(_), Err(_), Ok(p)) if x == p => 3,
                    (Err(_), _, _, _) if (a.is_ok() as u8 + b.is_ok() as u8 + c.is_ok() as u8) != 1 => 0,
                    _ => 99,
                }
            }
        };
    }
    use crate::basic::ct::sv::{ExecMsg, QueryMsg, SudoMsg};
    use crate::basic::ifa::sv::{IfaExecMsg, IfaQueryMsg, IfaSudoMsg};
    use crate::basic::ifb::sv::{IfbExecMsg, IfbQueryMsg, IfbSudoMsg};
    real3!(real_exec, ContractExecMsg, IfaExecMsg, IfbExecMsg, ExecMsg);
    real3!(real_query, ContractQueryMsg, IfaQueryMsg, IfbQueryMsg, QueryMsg);
    real3!(real_sudo, ContractSudoMsg, IfaSudoMsg, IfbSudoMsg, SudoMsg);

    /// Model side: a failed property assertion inside the glue oracle is verdict 99, not a test failure
    /// (a broken glue must show up in the Kani check, not here).
    fn verdict<F: FnOnce() -> u8 + std::panic::UnwindSafe>(f: F) -> u8 {
        std::panic::catch_unwind(f).unwrap_or(99)
    }

    fn m0(name: &str) -> Msg<'_, 0> {
        Msg { name, body: EMPTY0 }
    }
    fn m1<'a>(name: &'a str, k: &'a str, v: Sc) -> Msg<'a, 1> {
        Msg { name, body: Obj { keys: [k], vals: [v] } }
    }
    fn m2<'a>(name: &'a str, k1: &'a str, v1: Sc, k2: &'a str, v2: Sc) -> Msg<'a, 2> {
        Msg { name, body: Obj { keys: [k1, k2], vals: [v1, v2] } }
    }
    fn m3<'a>(name: &'a str, k: [&'a str; 3], v: [Sc; 3]) -> Msg<'a, 3> {
        Msg { name, body: Obj { keys: k, vals: v } }
    }

    macro_rules! same {
        ($real:ident, $model:path, $text:expr, $doc:expr) => {{
            // a panic on either side is verdict 99 (the property is violated on this document); it
            // must then be the SAME on both sides -- the Kani check reports it, not this pre-flight
            let r = verdict(|| $real($text));
            let d = $doc;
            let m = verdict(move || $model(d));
            assert_eq!(r, m, "real wrapper vs facade model disagree on {}", $text);
            assert!(!unsafe { c03::sylvia_model_overflow() }, "document inside the model: {}", $text);
        }};
    }

    #[test]
    fn exec_documents() {
        same!(real_exec, basic3::exec, r#"{"ping":{}}"#, m0("ping"));
        same!(real_exec, basic3::exec, r#"{"ping":{"x":1}}"#, m1("ping", "x", num(1)));
        same!(real_exec, basic3::exec, r#"{"foo1":{"x":18446744073709551615}}"#, m1("foo1", "x", num(u64::MAX)));
        same!(real_exec, basic3::exec, r#"{"foo1":{}}"#, m0("foo1"));
        same!(real_exec, basic3::exec, r#"{"foo_1":{"x":1}}"#, m1("foo_1", "x", num(1)));
        same!(real_exec, basic3::exec, r#"{"foo1":{"n":1}}"#, m1("foo1", "n", num(1)));
        same!(real_exec, basic3::exec, r#"{"tick":{"n":7}}"#, m1("tick", "n", num(7)));
        same!(real_exec, basic3::exec, r#"{"tock":{"n":7}}"#, m1("tock", "n", num(7)));
        same!(real_exec, basic3::exec, r#"{"foo_bar":{"a":1,"b":2}}"#, m2("foo_bar", "a", num(1), "b", num(2)));
        same!(real_exec, basic3::exec, r#"{"foo_bar":{"b":2,"a":1}}"#, m2("foo_bar", "b", num(2), "a", num(1)));
        same!(real_exec, basic3::exec, r#"{"foo_bar":{"a":1}}"#, m1("foo_bar", "a", num(1)));
        same!(real_exec, basic3::exec, r#"{"foo_bar":{"a":4294967296,"b":2}}"#, m2("foo_bar", "a", num(4294967296), "b", num(2)));
        same!(real_exec, basic3::exec, r#"{"baz_qux":{"a":1,"b":2,"zz":3}}"#, m3("baz_qux", ["a", "b", "zz"], [num(1), num(2), num(3)]));
        same!(real_exec, basic3::exec, r#"{"ia_one":{"a":1,"b":2}}"#, m2("ia_one", "a", num(1), "b", num(2)));
        same!(real_exec, basic3::exec, r#"{"ia_two":{"a":1,"b":2}}"#, m2("ia_two", "a", num(1), "b", num(2)));
        same!(real_exec, basic3::exec, r#"{"ia_one":{"a":1}}"#, m1("ia_one", "a", num(1)));
        same!(real_exec, basic3::exec, r#"{"ib_x":{"flag":true}}"#, m1("ib_x", "flag", boolean(true)));
        same!(real_exec, basic3::exec, r#"{"ib_x":{"flag":1}}"#, m1("ib_x", "flag", num(1)));
        same!(real_exec, basic3::exec, r#"{"nope":{}}"#, m0("nope"));
        same!(real_exec, basic3::exec, r#"{"get":{}}"#, m0("get"));
        same!(real_exec, basic3::exec, r#""ping""#, TopStr("ping"));
        same!(real_exec, basic3::exec, r#"null"#, TopNull);
        same!(real_exec, basic3::exec, r#"5"#, num(5));
        same!(real_exec, basic3::exec, r#"{}"#, EMPTY0);
        same!(real_exec, basic3::exec, r#"{"ping":{},"ib_x":{}}"#, Pair { first: m0("ping"), second: m0("ib_x") });
        same!(real_exec, basic3::exec, r#"{"ping":5}"#, NameSc { name: "ping", sc: num(5) });
    }

    #[test]
    fn query_and_sudo_documents() {
        same!(real_query, basic3::query, r#"{"get":{}}"#, m0("get"));
        same!(real_query, basic3::query, r#"{"q_two":{"a":1,"b":2}}"#, m2("q_two", "a", num(1), "b", num(2)));
        same!(real_query, basic3::query, r#"{"ia_q":{"k":255}}"#, m1("ia_q", "k", num(255)));
        same!(real_query, basic3::query, r#"{"ia_q":{"k":256}}"#, m1("ia_q", "k", num(256)));
        same!(real_query, basic3::query, r#"{"ib_q22":{}}"#, m0("ib_q22"));
        same!(real_query, basic3::query, r#"{"ib_q_22":{}}"#, m0("ib_q_22"));
        same!(real_query, basic3::query, r#"{"tick":{"n":1}}"#, m1("tick", "n", num(1)));
        same!(real_query, basic3::query, r#"{"ping":{}}"#, m0("ping"));
        same!(real_sudo, basic3::sudo, r#"{"tick":{"n":1}}"#, m1("tick", "n", num(1)));
        same!(real_sudo, basic3::sudo, r#"{"tack":{"n":1}}"#, m1("tack", "n", num(1)));
        same!(real_sudo, basic3::sudo, r#"{"tock":{"n":1}}"#, m1("tock", "n", num(1)));
        same!(real_sudo, basic3::sudo, r#"{"ib_s":{"n":1}}"#, m1("ib_s", "n", num(1)));
        same!(real_sudo, basic3::sudo, r#"{"ib_s":{}}"#, m0("ib_s"));
        same!(real_sudo, basic3::sudo, r#"{"ping":{}}"#, m0("ping"));
    }
}
