//! C01 — generated messages have the JSON shape named by the method signature.
//!
//! Deciding harnesses (all over the real derive output of the real macro expansion of corpus `basic`):
//!  * `ser_*`  (a)+(b): recorded serde events of a message with symbolic variant and argument values
//!                      are exactly {name:{arg:val,..}} in declaration order; constructors == literals
//!  * `dec_*`  (c) body dimension: for a fixed handler and every body layout, decoding succeeds iff
//!                      every argument is present exactly once and in range; the decoded value
//!                      re-serialises to the oracle's events (round trip at the serde-model level)
//!  * `n_*`    (c) name dimension: symbolic received name of concrete length L: accepted iff it is the
//!                      name of one method of that kind (oracle list), and iff it is in the published list
//!  * `top_*`  top-level shapes that are not a one-entry object are rejected by the part
#![allow(clippy::all)]
#![allow(dead_code, unused_imports, unused_mut, static_mut_refs, deprecated)]

#[path = "../../corpus/basic.rs"]
pub mod basic;

#[path = "../../corpus/optional.rs"]
pub mod optional;

#[path = "../../corpus/generic.rs"]
pub mod generic;

#[cfg(kani)]
#[path = "../../corpus/basic_names_h.rs"]
pub mod basic_names_h;

#[cfg(kani)]
#[path = "../../corpus/shape_h.rs"]
pub mod shape_h;

#[cfg(kani)]
mod h {
    use crate::basic::ct::sv::{self, ExecMsg, InstantiateMsg, MigrateMsg, QueryMsg, SudoMsg};
    use crate::basic::ifa::sv::{self as ifa, IfaExecMsg, IfaQueryMsg, IfaSudoMsg};
    use crate::basic::ifb::sv::{self as ifb, IfbExecMsg, IfbQueryMsg, IfbSudoMsg};
    use crate::names_harness;
    use crate::shape_h::*;
    use support::doc::{decode, num, Msg, NameSc, Obj, Pair, TopNull, TopStr, E, EMPTY0};
    use support::rec::record;

    // ---- hand-written handler table of corpus `basic` (see corpus/basic.rs) -------------------
    const AB: &[(&str, u8)] = &[("a", 32), ("b", 32)];
    const X64: &[(&str, u8)] = &[("x", 64)];
    const N64: &[(&str, u8)] = &[("n", 64)];
    const K8: &[(&str, u8)] = &[("k", 8)];
    const FLAG: &[(&str, u8)] = &[("flag", 1)];
    const NONE: &[(&str, u8)] = &[];

    const H_INST: HSpec = HSpec { name: "", args: AB };
    const H_MIGR: HSpec = HSpec { name: "", args: AB };
    const H_PING: HSpec = HSpec { name: "ping", args: NONE };
    const H_FOO_BAR: HSpec = HSpec { name: "foo_bar", args: AB };
    const H_BAZ_QUX: HSpec = HSpec { name: "baz_qux", args: AB };
    const H_FOO1: HSpec = HSpec { name: "foo1", args: X64 };
    const H_TICK: HSpec = HSpec { name: "tick", args: N64 };
    const H_GET: HSpec = HSpec { name: "get", args: NONE };
    const H_Q_TWO: HSpec = HSpec { name: "q_two", args: AB };
    const H_TACK: HSpec = HSpec { name: "tack", args: N64 };
    const H_TOCK: HSpec = HSpec { name: "tock", args: N64 };
    const H_IA_ONE: HSpec = HSpec { name: "ia_one", args: AB };
    const H_IA_TWO: HSpec = HSpec { name: "ia_two", args: AB };
    const H_IA_Q: HSpec = HSpec { name: "ia_q", args: K8 };
    const H_IB_X: HSpec = HSpec { name: "ib_x", args: FLAG };
    const H_IB_Q22: HSpec = HSpec { name: "ib_q22", args: NONE };
    const H_IB_S: HSpec = HSpec { name: "ib_s", args: N64 };

    fn rec_ok<T: sylvia::serde::Serialize>(m: &T, h: &HSpec, vals: [u64; 3], flat: bool) {
        match record(m) {
            Ok(r) => assert!(
                events_ok(&r, h, &vals, flat),
                "serialises to {{name: {{arg: value, ..}}}} with the arguments in declaration order"
            ),
            Err(_) => assert!(false, "generated messages serialise"),
        }
    }

    // ---- (a) + (b) ---------------------------------------------------------------------------
    #[kani::proof]
    #[kani::unwind(9)]
    fn ser_exec() {
        let sel: u8 = kani::any();
        kani::assume(sel < 5);
        let a: u32 = kani::any();
        let b: u32 = kani::any();
        let x: u64 = kani::any();
        match sel {
            0 => {
                rec_ok(&ExecMsg::Ping {}, &H_PING, [0; 3], false);
                assert!(ExecMsg::ping() == ExecMsg::Ping {});
            }
            1 => {
                rec_ok(&ExecMsg::FooBar { a, b }, &H_FOO_BAR, [a as u64, b as u64, 0], false);
                assert!(ExecMsg::foo_bar(a, b) == ExecMsg::FooBar { a, b });
            }
            2 => {
                rec_ok(&ExecMsg::BazQux { a, b }, &H_BAZ_QUX, [a as u64, b as u64, 0], false);
                assert!(ExecMsg::baz_qux(a, b) == ExecMsg::BazQux { a, b });
            }
            3 => {
                rec_ok(&ExecMsg::Foo1 { x }, &H_FOO1, [x, 0, 0], false);
            }
            _ => {
                rec_ok(&ExecMsg::Tick { n: x }, &H_TICK, [x, 0, 0], false);
                assert!(ExecMsg::tick(x) == ExecMsg::Tick { n: x });
            }
        }
        kani::cover!(sel == 1 && a != b, "two different same-typed arguments");
        kani::cover!(sel == 3, "digit-bearing name");
    }

    #[kani::proof]
    #[kani::unwind(9)]
    fn ser_query_sudo() {
        let sel: u8 = kani::any();
        kani::assume(sel < 4);
        let a: u32 = kani::any();
        let b: u32 = kani::any();
        let x: u64 = kani::any();
        match sel {
            0 => {
                rec_ok(&QueryMsg::Get {}, &H_GET, [0; 3], false);
                assert!(QueryMsg::get() == QueryMsg::Get {});
            }
            1 => {
                rec_ok(&QueryMsg::QTwo { a, b }, &H_Q_TWO, [a as u64, b as u64, 0], false);
                assert!(QueryMsg::q_two(a, b) == QueryMsg::QTwo { a, b });
            }
            2 => {
                rec_ok(&SudoMsg::Tack { n: x }, &H_TACK, [x, 0, 0], false);
                assert!(SudoMsg::tack(x) == SudoMsg::Tack { n: x });
            }
            _ => {
                rec_ok(&SudoMsg::Tock { n: x }, &H_TOCK, [x, 0, 0], false);
                assert!(SudoMsg::tock(x) == SudoMsg::Tock { n: x });
            }
        }
        kani::cover!(sel == 1, "query");
        kani::cover!(sel == 3, "sudo");
    }

    #[kani::proof]
    #[kani::unwind(9)]
    fn ser_flat() {
        let a: u32 = kani::any();
        let b: u32 = kani::any();
        if kani::any() {
            rec_ok(&InstantiateMsg { a, b }, &H_INST, [a as u64, b as u64, 0], true);
            assert!(InstantiateMsg::new(a, b) == InstantiateMsg { a, b });
        } else {
            rec_ok(&MigrateMsg { a, b }, &H_MIGR, [a as u64, b as u64, 0], true);
            assert!(MigrateMsg::new(a, b) == MigrateMsg { a, b });
        }
        kani::cover!(a != b);
    }

    #[kani::proof]
    #[kani::unwind(9)]
    fn ser_iface() {
        let sel: u8 = kani::any();
        kani::assume(sel < 6);
        let a: u32 = kani::any();
        let b: u32 = kani::any();
        let x: u64 = kani::any();
        match sel {
            0 => rec_ok(&IfaExecMsg::IaOne { a, b }, &H_IA_ONE, [a as u64, b as u64, 0], false),
            1 => rec_ok(&IfaExecMsg::IaTwo { a, b }, &H_IA_TWO, [a as u64, b as u64, 0], false),
            2 => rec_ok(&IfaQueryMsg::IaQ { k: a as u8 }, &H_IA_Q, [(a as u8) as u64, 0, 0], false),
            3 => rec_ok(&IfaSudoMsg::Tick { n: x }, &H_TICK, [x, 0, 0], false),
            4 => rec_ok(&IfbExecMsg::IbX { flag: a & 1 == 1 }, &H_IB_X, [(a & 1) as u64, 0, 0], false),
            _ => rec_ok(&IfbQueryMsg::IbQ22 {}, &H_IB_Q22, [0; 3], false),
        }
        kani::cover!(sel == 4, "bool argument");
        kani::cover!(sel == 5, "interface query with digits in its name");
    }

    /// `Option` arguments: the entry is present and holds the argument's own encoding (`null` for
    /// `None`); on the way in a missing or null entry is `None`.
    #[kani::proof]
    #[kani::unwind(9)]
    fn ser_dec_option() {
        use crate::optional::op::sv as op;
        use support::rec::{K_END, K_FIELD, K_NULL, K_STRUCT, K_STRUCT_VARIANT, K_U64};
        use support::sym::str_eq;
        let x: u64 = kani::any();
        let p: u64 = kani::any();
        let some: bool = kani::any();
        let o = if some { Some(x) } else { None };
        // exec: {"opt_arg": {"o": x | null, "p": p}}
        match record(&op::ExecMsg::OptArg { o, p }) {
            Ok(r) => {
                assert!(r.n == 6 && r.ev[0].k == K_STRUCT_VARIANT && str_eq(r.ev[0].s, "opt_arg") && r.ev[0].num == 2, "one entry per handler argument");
                assert!(r.ev[1].k == K_FIELD && str_eq(r.ev[1].s, "o"));
                if some {
                    assert!(r.ev[2].k == K_U64 && r.ev[2].num == x);
                } else {
                    assert!(r.ev[2].k == K_NULL, "None is encoded as null, the entry stays");
                }
                assert!(r.ev[3].k == K_FIELD && str_eq(r.ev[3].s, "p") && r.ev[4].k == K_U64 && r.ev[4].num == p && r.ev[5].k == K_END);
            }
            Err(_) => assert!(false),
        }
        // query and the flat instantiate message
        match (record(&op::QueryMsg::OptQ { o: o.map(|v| v as u32) }), record(&op::InstantiateMsg { o })) {
            (Ok(q), Ok(i)) => {
                assert!(q.n == 4 && str_eq(q.ev[0].s, "opt_q") && q.ev[0].num == 1 && str_eq(q.ev[1].s, "o"));
                assert!(i.n == 4 && i.ev[0].k == K_STRUCT && i.ev[0].num == 1 && str_eq(i.ev[1].s, "o"));
                assert!((q.ev[2].k == K_NULL) == !some && (i.ev[2].k == K_NULL) == !some);
            }
            _ => assert!(false),
        }
        // decoding: {o, p}, {p} (missing => None)
        let with: Result<op::ExecMsg, E> = decode(Msg { name: "opt_arg", body: Obj { keys: ["o", "p"], vals: [num(x), num(p)] } });
        let without: Result<op::ExecMsg, E> = decode(Msg { name: "opt_arg", body: Obj { keys: ["p"], vals: [num(p)] } });
        assert!(matches!(&with, Ok(op::ExecMsg::OptArg { o: Some(a), p: b }) if *a == x && *b == p));
        assert!(matches!(&without, Ok(op::ExecMsg::OptArg { o: None, p: b }) if *b == p));
        kani::cover!(some);
        kani::cover!(!some);
        core::mem::forget((with, without));
    }

    /// Unusual ARGUMENT names (trailing underscore as used to dodge keywords, leading underscore,
    /// digit): the wire key is the argument's name verbatim, on the way out and on the way in, for
    /// a variant message and for the flat migrate message.
    #[kani::proof]
    #[kani::unwind(11)]
    fn ser_dec_arg_names() {
        use crate::optional::op::sv as op;
        use support::rec::{K_END, K_FIELD, K_STRUCT, K_STRUCT_VARIANT, K_U64};
        use support::sym::str_eq;
        let v: [u64; 3] = kani::any();
        match record(&op::ExecMsg::ArgNames { type_: v[0], _lead: v[1], x2: v[2] }) {
            Ok(r) => {
                assert!(r.n == 8 && r.ev[0].k == K_STRUCT_VARIANT && str_eq(r.ev[0].s, "arg_names") && r.ev[0].num == 3);
                assert!(r.ev[1].k == K_FIELD && str_eq(r.ev[1].s, "type_") && r.ev[2].k == K_U64 && r.ev[2].num == v[0], "key = argument name, verbatim");
                assert!(r.ev[3].k == K_FIELD && str_eq(r.ev[3].s, "_lead") && r.ev[4].num == v[1], "key = argument name, verbatim");
                assert!(r.ev[5].k == K_FIELD && str_eq(r.ev[5].s, "x2") && r.ev[6].num == v[2] && r.ev[7].k == K_END);
            }
            Err(_) => assert!(false),
        }
        match record(&op::MigrateMsg { ref_: v[0] }) {
            Ok(m) => assert!(m.n == 4 && m.ev[0].k == K_STRUCT && m.ev[0].num == 1 && str_eq(m.ev[1].s, "ref_") && m.ev[2].num == v[0], "flat key = argument name, verbatim"),
            Err(_) => assert!(false),
        }
        let named: Result<op::ExecMsg, E> = decode(Msg { name: "arg_names", body: Obj { keys: ["type_", "_lead", "x2"], vals: [num(v[0]), num(v[1]), num(v[2])] } });
        let trimmed: Result<op::ExecMsg, E> = decode(Msg { name: "arg_names", body: Obj { keys: ["type", "lead", "x2"], vals: [num(v[0]), num(v[1]), num(v[2])] } });
        assert!(matches!(&named, Ok(op::ExecMsg::ArgNames { type_, _lead, x2 }) if *type_ == v[0] && *_lead == v[1] && *x2 == v[2]), "the JSON named by the signature parses back");
        assert!(trimmed.is_err(), "keys other than the argument names do not fill the arguments");
        let flat: Result<op::MigrateMsg, E> = decode(Obj { keys: ["ref_"], vals: [num(v[0])] });
        let flat_trimmed: Result<op::MigrateMsg, E> = decode(Obj { keys: ["ref"], vals: [num(v[0])] });
        assert!(matches!(&flat, Ok(op::MigrateMsg { ref_ }) if *ref_ == v[0]));
        assert!(flat_trimmed.is_err());
        kani::cover!(true);
        core::mem::forget((named, trimmed, flat, flat_trimmed));
    }

    // ---- (c) body dimension ----------------------------------------------------------------------
    /// One harness per (handler, set of body layouts); every arm calls with a *constant* layout
    /// (concrete sizes).  `core` = ordered, permuted, one missing, duplicated; `rest` = the others.
    macro_rules! dec_harness {
        ($name:ident, $ty:ty, $h:expr, $flat:literal, [$($ix:literal => $l:ident),+]) => {
            #[kani::proof]
            #[kani::unwind(9)]
            fn $name() {
                let sel: u8 = kani::any();
                let kv: [u64; 3] = kani::any();
                let mut hit = false;
                let mut acc = false;
                $(
                    if sel == $ix {
                        decode_case::<$ty, { $l.len() }>(&$h, $flat, $l, &kv);
                        let mut vals = [0u64; 3];
                        let mut j = 0;
                        while j < $l.len() {
                            vals[j] = if is_bool_arg(&$h, $l[j]) { kv[j] & 1 } else { kv[j] };
                            j += 1;
                        }
                        acc = body_accept(&$h, &$l, &vals).is_some();
                        hit = true;
                    }
                )+
                kani::assume(hit);
                kani::cover!(acc, "an accepted body exists");
                kani::cover!(!acc, "a rejected body exists");
            }
        };
    }
    // quick tier: small enums, core layouts
    dec_harness!(dec_q_two_core, QueryMsg, H_Q_TWO, false, [1 => L1, 2 => L2, 3 => L3, 5 => L5]);
    dec_harness!(dec_tock_core, SudoMsg, H_TOCK, false, [7 => L7, 0 => L0, 6 => L6]);
    dec_harness!(dec_ib_x_core, IfbExecMsg, H_IB_X, false, [9 => L9, 0 => L0, 1 => L1]);
    dec_harness!(dec_inst, InstantiateMsg, H_INST, true, [0 => L0, 1 => L1, 2 => L2, 3 => L3, 4 => L4, 5 => L5, 6 => L6, 7 => L7, 8 => L8, 9 => L9]);
    dec_harness!(dec_migr, MigrateMsg, H_MIGR, true, [0 => L0, 1 => L1, 2 => L2, 3 => L3, 4 => L4, 5 => L5, 6 => L6, 7 => L7, 8 => L8, 9 => L9]);
    // thorough tier: the 5-variant ExecMsg and the remaining layouts
    dec_harness!(dec_foo_bar_core, ExecMsg, H_FOO_BAR, false, [1 => L1, 2 => L2, 3 => L3, 5 => L5]);
    dec_harness!(dec_foo_bar_rest, ExecMsg, H_FOO_BAR, false, [0 => L0, 4 => L4, 6 => L6, 7 => L7, 8 => L8, 9 => L9]);
    dec_harness!(dec_foo1_core, ExecMsg, H_FOO1, false, [6 => L6, 0 => L0, 7 => L7]);
    dec_harness!(dec_foo1_rest, ExecMsg, H_FOO1, false, [1 => L1, 2 => L2, 3 => L3, 4 => L4, 5 => L5, 8 => L8, 9 => L9]);
    dec_harness!(dec_tick_core, ExecMsg, H_TICK, false, [7 => L7, 0 => L0, 6 => L6]);
    dec_harness!(dec_q_two_rest, QueryMsg, H_Q_TWO, false, [0 => L0, 4 => L4, 6 => L6, 7 => L7, 8 => L8, 9 => L9]);
    dec_harness!(dec_tock_rest, SudoMsg, H_TOCK, false, [1 => L1, 2 => L2, 3 => L3, 4 => L4, 5 => L5, 8 => L8, 9 => L9]);
    dec_harness!(dec_ia_q, IfaQueryMsg, H_IA_Q, false, [8 => L8, 0 => L0, 1 => L1, 6 => L6]);
    dec_harness!(dec_ib_x_rest, IfbExecMsg, H_IB_X, false, [2 => L2, 3 => L3, 4 => L4, 5 => L5, 6 => L6, 7 => L7, 8 => L8]);

    /// Handlers without arguments accept every body layout (unknown keys are ignored).
    #[kani::proof]
    #[kani::unwind(9)]
    fn dec_ping() {
        let kv: [u64; 3] = kani::any();
        if kani::any() {
            decode_case::<ExecMsg, 0>(&H_PING, false, L0, &kv);
        } else {
            decode_case::<ExecMsg, 2>(&H_PING, false, L1, &kv);
        }
        kani::cover!(true);
    }

    // ---- (c) name dimension (also C03(a) / C05(b)) -----------------------------------------------
    names_harness!(n_exec_3, ExecMsg, 3, 9, sv::execute_messages(), []);
    names_harness!(n_exec_4, ExecMsg, 4, 9, sv::execute_messages(), ["ping", "foo1", "tick"]);
    names_harness!(n_exec_5, ExecMsg, 5, 9, sv::execute_messages(), []);
    names_harness!(n_exec_7, ExecMsg, 7, 9, sv::execute_messages(), ["foo_bar", "baz_qux"]);
    names_harness!(n_query_3, QueryMsg, 3, 9, sv::query_messages(), ["get"]);
    names_harness!(n_query_5, QueryMsg, 5, 9, sv::query_messages(), ["q_two"]);
    names_harness!(n_sudo_4, SudoMsg, 4, 9, sv::sudo_messages(), ["tack", "tock"]);
    names_harness!(n_ifa_exec_6, IfaExecMsg, 6, 9, ifa::execute_messages(), ["ia_one", "ia_two"]);
    names_harness!(n_ifa_query_4, IfaQueryMsg, 4, 9, ifa::query_messages(), ["ia_q"]);
    names_harness!(n_ifa_sudo_4, IfaSudoMsg, 4, 9, ifa::sudo_messages(), ["tick"]);
    names_harness!(n_ifb_exec_4, IfbExecMsg, 4, 9, ifb::execute_messages(), ["ib_x"]);
    names_harness!(n_ifb_query_4, IfbQueryMsg, 4, 9, ifb::query_messages(), ["tick"]);
    names_harness!(n_ifb_query_6, IfbQueryMsg, 6, 9, ifb::query_messages(), ["ib_q22"]);
    names_harness!(n_ifb_query_7, IfbQueryMsg, 7, 9, ifb::query_messages(), []);
    names_harness!(n_ifb_sudo_4, IfbSudoMsg, 4, 9, ifb::sudo_messages(), ["ib_s"]);

    // ---- top-level shapes ------------------------------------------------------------------------
    /// A part's own message is a one-entry object: strings, numbers, null, empty and two-entry objects
    /// are rejected (the wrapper-level statement is C03).
    #[kani::proof]
    #[kani::unwind(9)]
    fn top_exec() {
        let sel: u8 = kani::any();
        kani::assume(sel < 6);
        let x: u64 = kani::any();
        let foo1 = Msg { name: "foo1", body: Obj { keys: ["x"], vals: [num(x)] } };
        let ping = Msg { name: "ping", body: EMPTY0 };
        let r: Result<ExecMsg, E> = match sel {
            0 => decode(TopStr("ping")),
            1 => decode(TopNull),
            2 => decode(num(x)),
            3 => decode(EMPTY0),
            4 => decode(Pair { first: foo1, second: ping }),
            _ => decode(NameSc { name: "foo1", sc: num(x) }),
        };
        assert!(r.is_err(), "not a one-entry object with an object body");
        kani::cover!(sel == 4);
        core::mem::forget(r);
    }

    // @PLAYBACK h@
}

#[cfg(kani)]
mod hg {
    use crate::basic_names_h::{accepted, any_name, as_str};
    use crate::generic::gc::sv;
    use crate::generic::ifg::sv as ifg;
    use crate::generic::{Digit, N64};

    /// Generic message types carry an internal placeholder variant for their type parameters.  It is
    /// not a message: each type accepts one name per annotated method of its kind "and no other" --
    /// neither the placeholder's identifier in any casing nor (symbolic 2-byte names) anything but the
    /// handlers `ga gb gv gz` / `ig` ...
    #[kani::proof]
    #[kani::unwind(11)]
    fn generic_placeholder_is_no_message() {
        type Exec = sv::ExecMsg<N64, u32, u8>;
        type Query = sv::QueryMsg<Digit>;
        type Sudo = sv::SudoMsg<u64>;
        type IfgExec = ifg::IfgExecMsg<u32>;
        type IfgQuery = ifg::IfgQueryMsg<Digit>;
        assert!(!accepted::<Exec>("__phantom") && !accepted::<Exec>("_phantom") && !accepted::<Exec>("_Phantom"));
        assert!(!accepted::<Query>("__phantom") && !accepted::<Query>("_phantom"));
        assert!(!accepted::<Sudo>("__phantom") && !accepted::<Sudo>("_phantom"));
        assert!(!accepted::<IfgExec>("__phantom") && !accepted::<IfgExec>("_phantom") && !accepted::<IfgExec>("_Phantom"));
        assert!(!accepted::<IfgQuery>("__phantom") && !accepted::<IfgQuery>("_phantom"));
        let b = any_name::<2>();
        let s = as_str(&b);
        let is = |l: &[&str]| l.iter().any(|n| support::sym::str_eq(n, s));
        assert!(accepted::<Exec>(s) == is(&["ga", "gb", "gv", "gz"]), "exec names of the generic contract");
        assert!(accepted::<IfgExec>(s) == is(&["ig"]), "exec names of the generic interface");
        kani::cover!(accepted::<Exec>(s));
        kani::cover!(accepted::<IfgExec>(s));
    }

    // @PLAYBACK hg@
}
