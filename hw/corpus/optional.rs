// Corpus item `optional`: handlers with `Option<..>` arguments (C01: "one entry per handler argument ...
// holding that argument's own JSON encoding" -- the encoding of `None` is `null`, the entry is present).
//   contract Op: exec opt_arg(o: Option<u64>, p: u64)      query opt_q(o: Option<u32>) -> u8
//                instantiate(o: Option<u64>)
//   unusual ARGUMENT names (the wire key is the argument's name, verbatim):
//                exec arg_names(type_: u64, _lead: u64, x2: u64)     migrate(ref_: u64)

pub mod op {
    use sylvia::ctx::{ExecCtx, InstantiateCtx, MigrateCtx, QueryCtx};
    use sylvia::cw_std::{Response, StdResult};

    pub struct Op;

    #[sylvia::contract]
    impl Op {
        pub const fn new() -> Self {
            Op
        }

        #[sv::msg(instantiate)]
        pub fn instantiate(&self, _ctx: InstantiateCtx, o: Option<u64>) -> StdResult<Response> {
            let _ = o;
            Ok(Response::new())
        }

        #[sv::msg(exec)]
        pub fn opt_arg(&self, _ctx: ExecCtx, o: Option<u64>, p: u64) -> StdResult<Response> {
            let _ = (o, p);
            Ok(Response::new())
        }

        #[sv::msg(exec)]
        pub fn arg_names(&self, _ctx: ExecCtx, type_: u64, _lead: u64, x2: u64) -> StdResult<Response> {
            let _ = (type_, _lead, x2);
            Ok(Response::new())
        }

        #[sv::msg(migrate)]
        pub fn migrate(&self, _ctx: MigrateCtx, ref_: u64) -> StdResult<Response> {
            let _ = ref_;
            Ok(Response::new())
        }

        #[sv::msg(query)]
        pub fn opt_q(&self, _ctx: QueryCtx, o: Option<u32>) -> StdResult<u8> {
            let _ = o;
            Ok(0)
        }
    }
}
