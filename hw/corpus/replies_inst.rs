// Corpus item `replies_inst`: the INSTANTIATE data modes (envelope decoding by
// cw_utils::parse_instantiate_response_data, no JSON inside).
//   name      method (success)                                   echo
//   ins       ins(#[sv::data(instantiate)] data, raw payload)     480
//   ins_opt   ins_opt(#[sv::data(instantiate, opt)] data, raw)    490
// Echo args: [gas_used, 1 + addr.len()*256 + addr[0] (or 0 for None), inner data: 0 none / 1+len, payload enc]

use support::echo::MyErr;
use sylvia::cw_std::StdError;

#[derive(Debug)]
pub enum RiErr {
    Std(StdError),
    Mine(u8),
}
impl From<StdError> for RiErr {
    fn from(e: StdError) -> Self {
        RiErr::Std(e)
    }
}
impl From<MyErr> for RiErr {
    fn from(e: MyErr) -> Self {
        RiErr::Mine(e.0)
    }
}

pub mod ri {
    use super::RiErr;
    use support::echo::{outcome, rec_mut};
    use sylvia::ctx::{InstantiateCtx, ReplyCtx};
    use sylvia::cw_std::{Binary, Response};
    use sylvia::cw_utils::MsgInstantiateContractResponse;

    pub struct Ri;

    fn addr_enc(r: &MsgInstantiateContractResponse) -> (u64, u64) {
        let a = r.contract_address.as_bytes();
        let e = 1 + (a.len() as u64) * 256 + if a.is_empty() { 0 } else { a[0] as u64 };
        let d = match &r.data {
            Some(b) => 1 + b.len() as u64,
            None => 0,
        };
        (e, d)
    }

    #[sylvia::contract]
    #[sv::error(RiErr)]
    #[sv::features(replies)]
    impl Ri {
        pub const fn new() -> Self {
            Ri
        }

        #[sv::msg(instantiate)]
        pub fn instantiate(&self, _ctx: InstantiateCtx) -> Result<Response, RiErr> {
            Ok(Response::new())
        }

        #[sv::msg(reply, reply_on=success)]
        pub fn ins(
            &self,
            mut ctx: ReplyCtx,
            #[sv::data(instantiate)] data: MsgInstantiateContractResponse,
            #[sv::payload(raw)] p: Binary,
        ) -> Result<Response, RiErr> {
            let (e, d) = addr_enc(&data);
            rec_mut(480, [ctx.gas_used, e, d, p.len() as u64], &mut ctx.deps, &ctx.env, None);
            outcome()
        }

        #[sv::msg(reply, reply_on=success)]
        pub fn ins_opt(
            &self,
            mut ctx: ReplyCtx,
            #[sv::data(instantiate, opt)] data: Option<MsgInstantiateContractResponse>,
            #[sv::payload(raw)] p: Binary,
        ) -> Result<Response, RiErr> {
            let (e, d) = match &data {
                Some(r) => addr_enc(r),
                None => (0, 0),
            };
            rec_mut(490, [ctx.gas_used, e, d, p.len() as u64], &mut ctx.deps, &ctx.env, None);
            outcome()
        }
    }
}
