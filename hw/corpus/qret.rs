// Corpus item `qret`: queries whose RETURN TYPE is not a plain struct -- the caller must still get the
// JSON encoding of the returned value (C02).  `Binary` is the interesting one: its JSON encoding is a
// base64 string, and handing the bytes back unencoded would type-check.
//   interface ifq (as Ifq): query iq_bin(b: u8) -> Binary       echo 1110
//   contract Qr           : query raw_bin(b: u8) -> Binary       echo 1100
//                           query flag(b: u8) -> bool            echo 1101
//   instantiate()

pub mod ifq {
    use sylvia::ctx::QueryCtx;
    use sylvia::cw_std::{Binary, StdError};

    #[sylvia::interface]
    #[sv::custom(msg=sylvia::cw_std::Empty, query=sylvia::cw_std::Empty)]
    pub trait Ifq {
        type Error: From<StdError>;

        #[sv::msg(query)]
        fn iq_bin(&self, ctx: QueryCtx, b: u8) -> Result<Binary, Self::Error>;
    }
}

pub mod qr {
    use support::echo::rec_ro;
    use sylvia::ctx::{InstantiateCtx, QueryCtx};
    use sylvia::cw_std::{Binary, Response, StdError, StdResult};

    pub struct Qr;

    #[sylvia::contract]
    #[sv::messages(crate::qret::ifq as Ifq)]
    impl Qr {
        pub const fn new() -> Self {
            Qr
        }

        #[sv::msg(instantiate)]
        pub fn instantiate(&self, _ctx: InstantiateCtx) -> StdResult<Response> {
            Ok(Response::new())
        }

        #[sv::msg(query)]
        pub fn raw_bin(&self, ctx: QueryCtx, b: u8) -> StdResult<Binary> {
            rec_ro(1100, [b as u64, 0, 0, 0], &ctx.deps, &ctx.env);
            Ok(Binary::from(vec![b]))
        }

        #[sv::msg(query)]
        pub fn flag(&self, ctx: QueryCtx, b: u8) -> StdResult<bool> {
            rec_ro(1101, [b as u64, 0, 0, 0], &ctx.deps, &ctx.env);
            Ok(b & 1 == 1)
        }
    }

    impl super::ifq::Ifq for Qr {
        type Error = StdError;

        fn iq_bin(&self, ctx: QueryCtx, b: u8) -> StdResult<Binary> {
            rec_ro(1110, [b as u64, 0, 0, 0], &ctx.deps, &ctx.env);
            Ok(Binary::from(vec![b]))
        }
    }
}
