// Corpus item `small`: the smallest contract with an interface, for the harnesses that run the real
// wrapper glue against the container model (cost grows with parts x names).
//   interface ifs (as Ifs): exec iafn(a:u32)          query iqfn() -> u8
//   contract Sm           : exec pong(), foo1(x:u64)  query getq() -> u8     sudo tock(n:u64)
//   instantiate()

pub mod ifs {
    use sylvia::ctx::{ExecCtx, QueryCtx};
    use sylvia::cw_std::{Response, StdError};

    #[sylvia::interface]
    #[sv::custom(msg=sylvia::cw_std::Empty, query=sylvia::cw_std::Empty)]
    pub trait Ifs {
        type Error: From<StdError>;

        #[sv::msg(exec)]
        fn iafn(&self, ctx: ExecCtx, a: u32) -> Result<Response, Self::Error>;

        #[sv::msg(query)]
        fn iqfn(&self, ctx: QueryCtx) -> Result<u8, Self::Error>;
    }
}

pub mod sm {
    use support::echo::{outcome, rec_mut, rec_ro};
    use sylvia::ctx::{ExecCtx, InstantiateCtx, QueryCtx, SudoCtx};
    use sylvia::cw_std::{Response, StdError, StdResult};

    pub struct Sm;

    #[cfg_attr(corpus_entry_points, sylvia::entry_points)]
    #[sylvia::contract]
    #[sv::messages(crate::small::ifs as Ifs)]
    impl Sm {
        pub const fn new() -> Self {
            Sm
        }

        #[sv::msg(instantiate)]
        pub fn instantiate(&self, mut ctx: InstantiateCtx) -> StdResult<Response> {
            rec_mut(900, [0; 4], &mut ctx.deps, &ctx.env, Some(&ctx.info));
            Ok(Response::new())
        }

        #[sv::msg(exec)]
        pub fn pong(&self, mut ctx: ExecCtx) -> StdResult<Response> {
            rec_mut(910, [0; 4], &mut ctx.deps, &ctx.env, Some(&ctx.info));
            Ok(Response::new())
        }

        #[sv::msg(exec)]
        pub fn foo1(&self, mut ctx: ExecCtx, x: u64) -> StdResult<Response> {
            rec_mut(911, [x, 0, 0, 0], &mut ctx.deps, &ctx.env, Some(&ctx.info));
            Ok(Response::new())
        }

        #[sv::msg(query)]
        pub fn getq(&self, ctx: QueryCtx) -> StdResult<u8> {
            rec_ro(920, [0; 4], &ctx.deps, &ctx.env);
            Ok(7)
        }

        #[sv::msg(sudo)]
        pub fn tock(&self, mut ctx: SudoCtx, n: u64) -> StdResult<Response> {
            rec_mut(930, [n, 0, 0, 0], &mut ctx.deps, &ctx.env, None);
            Ok(Response::new())
        }
    }

    impl super::ifs::Ifs for Sm {
        type Error = StdError;

        fn iafn(&self, mut ctx: ExecCtx, a: u32) -> StdResult<Response> {
            rec_mut(940, [a as u64, 0, 0, 0], &mut ctx.deps, &ctx.env, Some(&ctx.info));
            Ok(Response::new())
        }
        fn iqfn(&self, ctx: QueryCtx) -> StdResult<u8> {
            rec_ro(950, [0; 4], &ctx.deps, &ctx.env);
            Ok(8)
        }
    }
}
