// Corpus item `replies_typed`: the two EXECUTE-envelope typed data modes.  After the envelope
// (cw_utils::parse_execute_response_data) the generated code runs `from_json` on the inner bytes; in the
// harness build `sylvia::cw_std::from_json` is the façade's "decode the registered serde-doc" (feature
// json_docs), so the JSON-level cells are decided at the serde data-model level.
//   name     method (success)                                    echo
//   td       td(#[sv::data] data: Digit, raw payload)             500
//   td_opt   td_opt(#[sv::data(opt)] data: Option<Digit>, raw)    510
//   td_oty   td_oty(#[sv::data] data: Option<Digit>, raw)         515   MANDATORY typed mode whose payload
//                                                                      type happens to be an Option
//   tp_ok    tp_ok(note: Digit)            success only, TYPED payload   520
//   tp_err   tp_err(error, note: Digit)    error only,   TYPED payload   530
// Echo args: [gas_used, 1 + data.v (or 0 for None), payload len, 0]; tp_*: [gas_used, 1 + note.v, 0, 0]

use support::echo::MyErr;
use sylvia::cw_std::StdError;

#[derive(sylvia::serde::Serialize, sylvia::serde::Deserialize, Clone, Debug, PartialEq, sylvia::schemars::JsonSchema)]
#[serde(crate = "sylvia::serde")]
#[schemars(crate = "sylvia::schemars")]
pub struct Digit {
    pub v: u8,
}

#[derive(Debug)]
pub enum RdErr {
    Std(StdError),
    Mine(u8),
}
impl From<StdError> for RdErr {
    fn from(e: StdError) -> Self {
        RdErr::Std(e)
    }
}
impl From<MyErr> for RdErr {
    fn from(e: MyErr) -> Self {
        RdErr::Mine(e.0)
    }
}

pub mod rd {
    use super::{Digit, RdErr};
    use support::echo::{outcome, rec_mut};
    use sylvia::ctx::{InstantiateCtx, ReplyCtx};
    use sylvia::cw_std::{Binary, Response};

    pub struct Rd;

    #[sylvia::contract]
    #[sv::error(RdErr)]
    #[sv::features(replies)]
    impl Rd {
        pub const fn new() -> Self {
            Rd
        }

        #[sv::msg(instantiate)]
        pub fn instantiate(&self, _ctx: InstantiateCtx) -> Result<Response, RdErr> {
            Ok(Response::new())
        }

        #[sv::msg(reply, reply_on=success)]
        pub fn td(&self, mut ctx: ReplyCtx, #[sv::data] data: Digit, #[sv::payload(raw)] p: Binary) -> Result<Response, RdErr> {
            rec_mut(500, [ctx.gas_used, 1 + data.v as u64, p.len() as u64, 0], &mut ctx.deps, &ctx.env, None);
            outcome()
        }

        #[sv::msg(reply, reply_on=success)]
        pub fn td_opt(&self, mut ctx: ReplyCtx, #[sv::data(opt)] data: Option<Digit>, #[sv::payload(raw)] p: Binary) -> Result<Response, RdErr> {
            let d = match &data {
                Some(x) => 1 + x.v as u64,
                None => 0,
            };
            rec_mut(510, [ctx.gas_used, d, p.len() as u64, 0], &mut ctx.deps, &ctx.env, None);
            outcome()
        }

        #[sv::msg(reply, reply_on=success)]
        pub fn td_oty(&self, mut ctx: ReplyCtx, #[sv::data] data: Option<Digit>, #[sv::payload(raw)] p: Binary) -> Result<Response, RdErr> {
            let d = match &data {
                Some(x) => 1 + x.v as u64,
                None => 0,
            };
            rec_mut(515, [ctx.gas_used, d, p.len() as u64, 0], &mut ctx.deps, &ctx.env, None);
            outcome()
        }

        #[sv::msg(reply, reply_on=success)]
        pub fn tp_ok(&self, mut ctx: ReplyCtx, note: Digit) -> Result<Response, RdErr> {
            rec_mut(520, [ctx.gas_used, 1 + note.v as u64, 0, 0], &mut ctx.deps, &ctx.env, None);
            outcome()
        }

        #[sv::msg(reply, reply_on=error)]
        pub fn tp_err(&self, mut ctx: ReplyCtx, _error: String, note: Digit) -> Result<Response, RdErr> {
            rec_mut(530, [ctx.gas_used, 1 + note.v as u64, 0, 0], &mut ctx.deps, &ctx.env, None);
            outcome()
        }
    }
}
