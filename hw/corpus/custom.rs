// Corpus item `custom`: a contract over chain-custom message AND query types that includes an
// interface written for the empty custom types (`: custom(msg, query)`), plus an interface that is
// natively custom-typed (no bridge) for contrast.
//
// ORACLE TABLE
//   contract Cc  (msg = MyMsg, query = MyQuery)
//     500 instantiate          -
//     510 exec   c_exec        n:u64
//   interface plain (Empty/Empty, bridged with `: custom(msg, query)`)
//     610 exec   p_exec        n:u64      response built by `bridged_outcome`
//     620 query  p_query       n:u64      -> Digit
//     630 sudo   p_sudo        n:u64      response built by `bridged_outcome`
//   interface native (MyMsg/MyQuery, no bridge)
//     710 exec   n_exec        n:u64

use support::echo::MyErr;
use sylvia::cw_std::{CustomMsg, CustomQuery, StdError};

#[derive(
    sylvia::serde::Serialize, sylvia::serde::Deserialize, Clone, Debug, PartialEq, sylvia::schemars::JsonSchema,
)]
#[serde(crate = "sylvia::serde")]
#[schemars(crate = "sylvia::schemars")]
pub struct MyMsg {}
impl CustomMsg for MyMsg {}

#[derive(
    sylvia::serde::Serialize, sylvia::serde::Deserialize, Clone, Debug, PartialEq, sylvia::schemars::JsonSchema,
)]
#[serde(crate = "sylvia::serde")]
#[schemars(crate = "sylvia::schemars")]
pub struct MyQuery {}
impl CustomQuery for MyQuery {}

#[derive(
    sylvia::serde::Serialize, sylvia::serde::Deserialize, Clone, Debug, PartialEq, sylvia::schemars::JsonSchema,
)]
#[serde(crate = "sylvia::serde")]
#[schemars(crate = "sylvia::schemars")]
pub struct Digit {
    pub v: u8,
}

#[derive(Debug)]
pub enum CcErr {
    Std(StdError),
    Mine(u8),
}
impl From<StdError> for CcErr {
    fn from(e: StdError) -> Self {
        CcErr::Std(e)
    }
}
impl From<MyErr> for CcErr {
    fn from(e: MyErr) -> Self {
        CcErr::Mine(e.0)
    }
}

/// What a bridged interface handler puts into its `Response<Empty>` (set by the harness).
#[derive(Clone, Copy)]
pub struct Shape {
    /// 0: no sub-message, 1: one non-custom sub-message, 2: one custom-typed sub-message
    pub sub: u8,
    pub sub_id: u64,
    pub sub_gas: Option<u64>,
    pub sub_reply_on: u8,
    pub sub_payload: u8,
    pub attr: bool,
    pub ak: u8,
    pub av: u8,
    pub event: bool,
    pub ety: u8,
}
pub static mut SHAPE: Shape = Shape {
    sub: 0,
    sub_id: 0,
    sub_gas: None,
    sub_reply_on: 0,
    sub_payload: 0,
    attr: false,
    ak: 0,
    av: 0,
    event: false,
    ety: 0,
};

pub fn reply_on_of(k: u8) -> sylvia::cw_std::ReplyOn {
    use sylvia::cw_std::ReplyOn::*;
    match k {
        0 => Always,
        1 => Success,
        2 => Error,
        _ => Never,
    }
}

/// Outcome of the bridged handlers: Err(code) or a response shaped by `SHAPE` with data byte.
pub fn bridged_outcome<E: From<MyErr>>() -> Result<sylvia::cw_std::Response, E> {
    use support::env::one_char;
    use sylvia::cw_std::{Binary, CosmosMsg, Empty, Event, Response, SubMsg, WasmMsg};
    let c = support::echo::ctl();
    if c.fail {
        return Err(E::from(MyErr(c.code)));
    }
    let s = unsafe { SHAPE };
    let mut r = Response::<Empty>::new();
    r.data = Some(Binary::from(vec![c.data]));
    if s.attr {
        r = r.add_attribute(one_char(s.ak), one_char(s.av));
    }
    if s.event {
        r = r.add_event(Event::new(one_char(s.ety)));
    }
    if s.sub != 0 {
        let msg: CosmosMsg<Empty> = if s.sub == 1 {
            CosmosMsg::Wasm(WasmMsg::ClearAdmin {
                contract_addr: String::new(),
            })
        } else {
            CosmosMsg::Custom(Empty {})
        };
        r = r.add_submessage(SubMsg {
            id: s.sub_id,
            msg,
            gas_limit: s.sub_gas,
            reply_on: reply_on_of(s.sub_reply_on),
            payload: Binary::from(vec![s.sub_payload]),
        });
    }
    Ok(r)
}

pub mod plain {
    use super::Digit;
    use sylvia::ctx::{ExecCtx, QueryCtx, SudoCtx};
    use sylvia::cw_std::{Response, StdError};

    #[sylvia::interface]
    #[sv::custom(msg=sylvia::cw_std::Empty, query=sylvia::cw_std::Empty)]
    pub trait Plain {
        type Error: From<StdError>;

        #[sv::msg(exec)]
        fn p_exec(&self, ctx: ExecCtx, n: u64) -> Result<Response, Self::Error>;

        #[sv::msg(query)]
        fn p_query(&self, ctx: QueryCtx, n: u64) -> Result<Digit, Self::Error>;

        #[sv::msg(sudo)]
        fn p_sudo(&self, ctx: SudoCtx, n: u64) -> Result<Response, Self::Error>;
    }
}

pub mod native {
    use super::{MyMsg, MyQuery};
    use sylvia::ctx::ExecCtx;
    use sylvia::cw_std::{Response, StdError};

    #[sylvia::interface]
    #[sv::custom(msg=MyMsg, query=MyQuery)]
    pub trait Native {
        type Error: From<StdError>;

        #[sv::msg(exec)]
        fn n_exec(&self, ctx: ExecCtx<MyQuery>, n: u64) -> Result<Response<MyMsg>, Self::Error>;
    }
}

pub mod cc {
    use super::{CcErr, MyMsg, MyQuery};
    use support::echo::{outcome, rec_mut};
    use sylvia::ctx::{ExecCtx, InstantiateCtx};
    use sylvia::cw_std::Response;

    pub struct Cc;

    #[sylvia::contract]
    #[sv::error(CcErr)]
    #[sv::custom(msg=MyMsg, query=MyQuery)]
    #[sv::messages(crate::custom::plain: custom(msg, query))]
    #[sv::messages(crate::custom::native)]
    impl Cc {
        pub const fn new() -> Self {
            Cc
        }

        #[sv::msg(instantiate)]
        pub fn instantiate(&self, mut ctx: InstantiateCtx<MyQuery>) -> Result<Response<MyMsg>, CcErr> {
            rec_mut(500, [0; 4], &mut ctx.deps, &ctx.env, Some(&ctx.info));
            outcome()
        }

        #[sv::msg(exec)]
        pub fn c_exec(&self, mut ctx: ExecCtx<MyQuery>, n: u64) -> Result<Response<MyMsg>, CcErr> {
            rec_mut(510, [n, 0, 0, 0], &mut ctx.deps, &ctx.env, Some(&ctx.info));
            outcome()
        }
    }
}

/// Second contract: custom *query* only (messages stay `Empty`), so the generated exec / sudo arms
/// for `: custom(query)` are plain `ctx.0.into_empty()` conversions without `into_response`.
///   800 instantiate
///   610/620/630 bridged `plain` handlers as above
pub mod cq {
    use super::{CcErr, MyQuery};
    use support::echo::{outcome, rec_mut};
    use sylvia::ctx::InstantiateCtx;
    use sylvia::cw_std::Response;

    pub struct Cq;

    #[sylvia::contract]
    #[sv::error(CcErr)]
    #[sv::custom(query=MyQuery)]
    #[sv::messages(crate::custom::plain: custom(query))]
    impl Cq {
        pub const fn new() -> Self {
            Cq
        }

        #[sv::msg(instantiate)]
        pub fn instantiate(&self, mut ctx: InstantiateCtx<MyQuery>) -> Result<Response, CcErr> {
            rec_mut(800, [0; 4], &mut ctx.deps, &ctx.env, Some(&ctx.info));
            outcome()
        }
    }
}

mod impls_cq {
    use super::cq::Cq;
    use super::{CcErr, Digit};
    use support::echo::{ctl, outcome, q_outcome, rec_mut, rec_ro};
    use sylvia::ctx::{ExecCtx, QueryCtx, SudoCtx};
    use sylvia::cw_std::Response;

    impl super::plain::Plain for Cq {
        type Error = CcErr;

        fn p_exec(&self, mut ctx: ExecCtx, n: u64) -> Result<Response, CcErr> {
            rec_mut(610, [n, 0, 0, 0], &mut ctx.deps, &ctx.env, Some(&ctx.info));
            outcome()
        }
        fn p_query(&self, ctx: QueryCtx, n: u64) -> Result<Digit, CcErr> {
            rec_ro(620, [n, 0, 0, 0], &ctx.deps, &ctx.env);
            q_outcome(Digit { v: ctl().digit })
        }
        fn p_sudo(&self, mut ctx: SudoCtx, n: u64) -> Result<Response, CcErr> {
            rec_mut(630, [n, 0, 0, 0], &mut ctx.deps, &ctx.env, None);
            outcome()
        }
    }
}

mod impls {
    use super::cc::Cc;
    use super::{bridged_outcome, CcErr, Digit, MyMsg, MyQuery};
    use support::echo::{ctl, outcome, q_outcome, rec_mut, rec_ro};
    use sylvia::ctx::{ExecCtx, QueryCtx, SudoCtx};
    use sylvia::cw_std::Response;

    impl super::plain::Plain for Cc {
        type Error = CcErr;

        fn p_exec(&self, mut ctx: ExecCtx, n: u64) -> Result<Response, CcErr> {
            rec_mut(610, [n, 0, 0, 0], &mut ctx.deps, &ctx.env, Some(&ctx.info));
            bridged_outcome()
        }
        fn p_query(&self, ctx: QueryCtx, n: u64) -> Result<Digit, CcErr> {
            rec_ro(620, [n, 0, 0, 0], &ctx.deps, &ctx.env);
            q_outcome(Digit { v: ctl().digit })
        }
        fn p_sudo(&self, mut ctx: SudoCtx, n: u64) -> Result<Response, CcErr> {
            rec_mut(630, [n, 0, 0, 0], &mut ctx.deps, &ctx.env, None);
            bridged_outcome()
        }
    }

    impl super::native::Native for Cc {
        type Error = CcErr;

        fn n_exec(&self, mut ctx: ExecCtx<MyQuery>, n: u64) -> Result<Response<MyMsg>, CcErr> {
            rec_mut(710, [n, 0, 0, 0], &mut ctx.deps, &ctx.env, Some(&ctx.info));
            outcome()
        }
    }
}
