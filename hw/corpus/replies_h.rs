// Shared harness code for the `replies` corpus item (used by the C07, C08 and C09 crates).
// `DL` = number of data bytes when data is present, `PL` = number of payload bytes: concrete per
// harness instance (DESIGN P19), contents symbolic.

use crate::replies::rp::{sv, Rp};
use crate::replies::{enc, RpErr, K_ALW_ERR, K_ALW_OK, K_DATA, K_ERR, K_NONE};
use support::call::{any_in, check_call, check_no_call, In};
use support::echo;
use support::env::one_char;
use sylvia::cw_std::{Binary, Empty, Event, MsgResponse, Reply, Response, StdError, SubMsgResponse, SubMsgResult};

/// What must happen on a successful sub-message.
#[derive(Clone, Copy)]
pub enum OnOk {
    /// success method without data parameter
    Plain(u32),
    /// success method with `#[sv::data(raw, opt)]`
    DataOpt(u32),
    /// success method with `#[sv::data(raw)]`
    DataRaw(u32),
    /// `always` method
    Always(u32),
    /// nobody covers success: events and data are passed through
    Pass,
}

#[derive(Clone, Copy)]
pub enum OnErr {
    Err(u32),
    Always(u32),
    /// nobody covers failure: the error is returned
    Pass,
}

pub struct Rin<const DL: usize, const PL: usize> {
    pub gas: u64,
    pub ok: bool,
    pub has_ev: bool,
    pub ev: [u8; 3],
    pub has_mr: bool,
    pub mr: [u8; 2],
    pub has_data: bool,
    pub d: [u8; DL],
    pub pb: [u8; PL],
    pub eb: u8,
}

pub fn any_rin<const DL: usize, const PL: usize>() -> Rin<DL, PL> {
    let r = Rin {
        gas: kani::any(),
        ok: kani::any(),
        has_ev: kani::any(),
        ev: kani::any(),
        has_mr: kani::any(),
        mr: kani::any(),
        has_data: kani::any(),
        d: kani::any(),
        pb: kani::any(),
        eb: kani::any(),
    };
    kani::assume(r.ev[0] < 128 && r.ev[1] < 128 && r.ev[2] < 128 && r.mr[0] < 128 && r.eb < 128);
    r
}

pub fn mk_reply<const DL: usize, const PL: usize>(id: u64, r: &Rin<DL, PL>) -> Reply {
    mk_reply_with(id, r, Binary::from(r.pb.to_vec()))
}

pub fn mk_reply_with<const DL: usize, const PL: usize>(id: u64, r: &Rin<DL, PL>, payload: Binary) -> Reply {
    let result = if r.ok {
        let events = if r.has_ev {
            vec![Event::new(one_char(r.ev[0])).add_attribute(one_char(r.ev[1]), one_char(r.ev[2]))]
        } else {
            Vec::new()
        };
        let msg_responses = if r.has_mr {
            vec![MsgResponse {
                type_url: one_char(r.mr[0]),
                value: Binary::from(vec![r.mr[1]]),
            }]
        } else {
            Vec::new()
        };
        SubMsgResult::Ok(SubMsgResponse {
            events,
            data: if r.has_data { Some(Binary::from(r.d.to_vec())) } else { None },
            msg_responses,
        })
    } else {
        SubMsgResult::Err(one_char(r.eb))
    };
    Reply {
        id,
        payload,
        gas_used: r.gas,
        result,
    }
}

/// Handler outcome reaches the caller untouched.
pub fn check_handler_outcome(i: &In, res: &Result<Response<Empty>, RpErr>) {
    match res {
        Ok(resp) => {
            assert!(!i.ctl.fail);
            let (has, d0, len) = echo::resp_data(resp);
            assert!(has && len == 1 && d0 == i.ctl.data, "handler's response untouched");
            assert!(resp.messages.is_empty() && resp.attributes.is_empty() && resp.events.is_empty());
        }
        Err(RpErr::Mine(c)) => assert!(i.ctl.fail && *c == i.ctl.code, "handler's error"),
        Err(RpErr::Std(_)) => assert!(false, "no StdError expected when a handler ran"),
    }
}

/// Oracle for one reply against the hand-written table entry (`onok`, `onerr`) of its id.
pub fn check_reply<const DL: usize, const PL: usize>(
    i: &In,
    w: &support::env::World,
    r: &Rin<DL, PL>,
    res: &Result<Response<Empty>, RpErr>,
    onok: OnOk,
    onerr: OnErr,
) {
    let pay = enc(&r.pb);
    let evs = (if r.has_ev { 16 } else { 0 }) + (if r.has_mr { 1 } else { 0 });
    let dat = enc(&r.d);
    if r.ok {
        match onok {
            OnOk::Plain(h) => {
                check_call(i, w, h, [r.gas, evs, pay, 0], false, true);
                check_handler_outcome(i, res);
                kani::cover!(true, "success -> plain success method");
            }
            OnOk::DataOpt(h) => {
                let d = if r.has_data { K_DATA + dat } else { K_NONE };
                check_call(i, w, h, [r.gas, evs, pay, d], false, true);
                check_handler_outcome(i, res);
                kani::cover!(r.has_data, "success -> method with optional raw data (present)");
                kani::cover!(!r.has_data, "success -> method with optional raw data (absent -> None)");
            }
            OnOk::DataRaw(h) => {
                if r.has_data {
                    check_call(i, w, h, [r.gas, evs, pay, K_DATA + dat], false, true);
                    check_handler_outcome(i, res);
                    kani::cover!(true, "success -> method with mandatory raw data (present)");
                } else {
                    check_no_call(w);
                    assert!(res.is_err(), "missing mandatory data is an error, handler not invoked");
                    kani::cover!(true, "success, data missing -> error");
                }
            }
            OnOk::Always(h) => {
                // always methods get the full result and an empty events / msg_responses context
                let d = K_ALW_OK + if r.has_data { dat } else { 0 };
                check_call(i, w, h, [r.gas, 0, pay, d], false, true);
                check_handler_outcome(i, res);
                kani::cover!(true, "success -> always method");
            }
            OnOk::Pass => {
                check_no_call(w);
                match res {
                    Ok(resp) => {
                        assert!(resp.events.len() == if r.has_ev { 1 } else { 0 }, "events passed through");
                        if r.has_ev {
                            let e = &resp.events[0];
                            assert!(support::sym::str_eq(&e.ty, &one_char(r.ev[0])));
                            assert!(e.attributes.len() == 1);
                            assert!(support::sym::str_eq(&e.attributes[0].key, &one_char(r.ev[1])));
                            assert!(support::sym::str_eq(&e.attributes[0].value, &one_char(r.ev[2])));
                        }
                        match &resp.data {
                            Some(b) => assert!(r.has_data && enc(b.as_slice()) == dat, "data passed through"),
                            None => assert!(!r.has_data, "data presence passed through"),
                        }
                        assert!(resp.messages.is_empty() && resp.attributes.is_empty());
                    }
                    Err(_) => assert!(false, "uncovered success acts as if no reply had been requested"),
                }
                kani::cover!(r.has_ev && r.has_data, "success pass-through with event and data");
            }
        }
    } else {
        let err = enc(&[r.eb]);
        match onerr {
            OnErr::Err(h) => {
                check_call(i, w, h, [r.gas, 0, pay, K_ERR + err], false, true);
                check_handler_outcome(i, res);
                kani::cover!(true, "failure -> error method");
            }
            OnErr::Always(h) => {
                check_call(i, w, h, [r.gas, 0, pay, K_ALW_ERR + err], false, true);
                check_handler_outcome(i, res);
                kani::cover!(true, "failure -> always method");
            }
            OnErr::Pass => {
                check_no_call(w);
                match res {
                    Err(RpErr::Std(StdError::GenericErr { msg, .. })) => {
                        assert!(support::sym::str_eq(msg, &one_char(r.eb)), "that error");
                    }
                    _ => assert!(false, "uncovered failure is answered with that error"),
                }
                kani::cover!(true, "failure pass-through");
            }
        }
    }
}

pub fn reply_case<const DL: usize, const PL: usize>(id: u64, onok: OnOk, onerr: OnErr) {
    let i = any_in();
    let r = any_rin::<DL, PL>();
    let mut w = i.world();
    let msg = mk_reply(id, &r);
    let res = sv::dispatch_reply(w.deps_mut(), i.env(), msg, Rp::new());
    check_reply(&i, &w, &r, &res, onok, onerr);
    core::mem::forget(res);
}

pub const KNOWN: [u64; 9] = [
    sv::ON_SUCC_REPLY_ID,
    sv::ON_ERR_REPLY_ID,
    sv::BOTH_REPLY_ID,
    sv::REV_REPLY_ID,
    sv::ALW_REPLY_ID,
    sv::H_A_REPLY_ID,
    sv::H_B_REPLY_ID,
    sv::RAW_DATA_REPLY_ID,
    sv::RAW_OPT_REPLY_ID,
];

pub const fn max_known() -> u64 {
    let mut m = 0;
    let mut k = 0;
    while k < 9 {
        if KNOWN[k] > m {
            m = KNOWN[k];
        }
        k += 1;
    }
    m
}

/// The oracle table of corpus/replies.rs, keyed by position in `KNOWN`.
pub const TABLE: [(OnOk, OnErr); 9] = [
    (OnOk::Plain(400), OnErr::Pass),
    (OnOk::Pass, OnErr::Err(410)),
    (OnOk::DataOpt(420), OnErr::Err(421)),
    (OnOk::Plain(431), OnErr::Err(430)),
    (OnOk::Always(440), OnErr::Always(440)),
    (OnOk::Plain(450), OnErr::Pass),
    (OnOk::Plain(450), OnErr::Pass),
    (OnOk::DataRaw(460), OnErr::Pass),
    (OnOk::DataOpt(470), OnErr::Pass),
];
