// Corpus item `names`: method names outside the "lower-case words joined by single underscores"
// shape -- leading / repeated underscores, digits inside and between words.  For these the wire name
// need not equal the method name; what must hold is self-consistency (C03/C05): the published list
// is exactly the set of names the derived decoder accepts, sorted and duplicate-free.
//   contract Nm: exec  _lead(), dbl__und(), a1b2(), x_1(), r2d2_x9(), a_b(), swap_a_b()
//                query q__(), k9()

#![allow(non_snake_case)]

pub mod nm {
    use sylvia::ctx::{ExecCtx, InstantiateCtx, QueryCtx};
    use sylvia::cw_std::{Response, StdResult};

    pub struct Nm;

    #[sylvia::contract]
    impl Nm {
        pub const fn new() -> Self {
            Nm
        }

        #[sv::msg(instantiate)]
        pub fn instantiate(&self, _ctx: InstantiateCtx) -> StdResult<Response> {
            Ok(Response::new())
        }

        #[sv::msg(exec)]
        pub fn _lead(&self, _ctx: ExecCtx) -> StdResult<Response> {
            Ok(Response::new())
        }

        #[sv::msg(exec)]
        pub fn dbl__und(&self, _ctx: ExecCtx) -> StdResult<Response> {
            Ok(Response::new())
        }

        #[sv::msg(exec)]
        pub fn a1b2(&self, _ctx: ExecCtx) -> StdResult<Response> {
            Ok(Response::new())
        }

        #[sv::msg(exec)]
        pub fn x_1(&self, _ctx: ExecCtx) -> StdResult<Response> {
            Ok(Response::new())
        }

        #[sv::msg(exec)]
        pub fn r2d2_x9(&self, _ctx: ExecCtx) -> StdResult<Response> {
            Ok(Response::new())
        }

        // consecutive one-letter words: UpperCamel `AB`, `SwapAB`
        #[sv::msg(exec)]
        pub fn a_b(&self, _ctx: ExecCtx) -> StdResult<Response> {
            Ok(Response::new())
        }

        #[sv::msg(exec)]
        pub fn swap_a_b(&self, _ctx: ExecCtx) -> StdResult<Response> {
            Ok(Response::new())
        }

        #[sv::msg(query)]
        pub fn q__(&self, _ctx: QueryCtx) -> StdResult<u8> {
            Ok(0)
        }

        #[sv::msg(query)]
        pub fn k9(&self, _ctx: QueryCtx) -> StdResult<u8> {
            Ok(0)
        }
    }
}
