// Corpus item `replies`: reply handler tables (feature `replies`), every handler takes a raw payload
// (a typed payload would put `from_json` on every path of `dispatch_reply`, DESIGN P18).
//
// ORACLE TABLE (hand-written): handler name -> methods per outcome, data mode, echo id
//   name       success                      error                   data mode      builder reply_on
//   on_succ    400 on_succ                  - (pass-through)        no marker      Success
//   on_err     - (pass-through)             410 on_err              -              Error
//   both       420 both_ok                  421 both_err            raw, opt       Always
//   rev        431 rev_ok (declared 2nd)    430 rev_err (1st)       no marker      Always
//   alw        440 alw (always)             440 alw (always)        -              Always
//   h_a, h_b   450 multi (handlers=[..])    - (pass-through)        no marker      Success
//   raw_data   460 raw_data                 - (pass-through)        raw            Success
//   raw_opt    470 raw_opt                  - (pass-through)        raw, opt       Success
//
// Echo arguments recorded by every reply handler:
//   args[0] = ctx.gas_used
//   args[1] = ctx.events.len() * 16 + ctx.msg_responses.len()
//   args[2] = enc(payload)            (enc = length and first three bytes packed)
//   args[3] = success handlers with data: K_DATA + enc(data), or K_NONE for `None`
//             error handlers: K_ERR + enc(error text)
//             always: K_ALW_OK + enc(response data or empty) / K_ALW_ERR + enc(error text)
//             success handlers without data marker: 0

use support::echo::MyErr;
use sylvia::cw_std::StdError;

#[derive(Debug)]
pub enum RpErr {
    Std(StdError),
    Mine(u8),
}
impl From<StdError> for RpErr {
    fn from(e: StdError) -> Self {
        RpErr::Std(e)
    }
}
impl From<MyErr> for RpErr {
    fn from(e: MyErr) -> Self {
        RpErr::Mine(e.0)
    }
}

/// Length and first three bytes of a byte string packed into one number (byte-for-byte comparison
/// of payloads / data of up to 3 bytes without any container).
pub fn enc(s: &[u8]) -> u64 {
    let b0 = if s.len() > 0 { s[0] as u64 } else { 0 };
    let b1 = if s.len() > 1 { s[1] as u64 } else { 0 };
    let b2 = if s.len() > 2 { s[2] as u64 } else { 0 };
    ((s.len() as u64) << 24) | (b0 << 16) | (b1 << 8) | b2
}

pub fn pl(p: &sylvia::cw_std::Binary) -> u64 {
    enc(p.as_slice())
}

pub fn st(s: &str) -> u64 {
    enc(s.as_bytes())
}

pub const K_DATA: u64 = 1 << 40;
pub const K_NONE: u64 = 1;
pub const K_ERR: u64 = 2 << 40;
pub const K_ALW_OK: u64 = 3 << 40;
pub const K_ALW_ERR: u64 = 4 << 40;

pub mod rp {
    use super::{pl, st, RpErr, K_ALW_ERR, K_ALW_OK, K_DATA, K_ERR, K_NONE};
    use support::echo::{outcome, rec_mut};
    use sylvia::ctx::{InstantiateCtx, ReplyCtx};
    use sylvia::cw_std::{Binary, Response, SubMsgResult};

    pub struct Rp;

    fn ctx_args(ctx: &ReplyCtx) -> (u64, u64) {
        (
            ctx.gas_used,
            (ctx.events.len() as u64) * 16 + ctx.msg_responses.len() as u64,
        )
    }

    #[cfg_attr(corpus_entry_points, sylvia::entry_points)]
    #[sylvia::contract]
    #[sv::error(RpErr)]
    #[sv::features(replies)]
    impl Rp {
        pub const fn new() -> Self {
            Rp
        }

        #[sv::msg(instantiate)]
        pub fn instantiate(&self, _ctx: InstantiateCtx) -> Result<Response, RpErr> {
            Ok(Response::new())
        }

        #[sv::msg(reply, reply_on=success)]
        pub fn on_succ(&self, mut ctx: ReplyCtx, #[sv::payload(raw)] p: Binary) -> Result<Response, RpErr> {
            let (g, e) = ctx_args(&ctx);
            rec_mut(400, [g, e, pl(&p), 0], &mut ctx.deps, &ctx.env, None);
            outcome()
        }

        #[sv::msg(reply, reply_on=error)]
        pub fn on_err(&self, mut ctx: ReplyCtx, error: String, #[sv::payload(raw)] p: Binary) -> Result<Response, RpErr> {
            let (g, e) = ctx_args(&ctx);
            rec_mut(410, [g, e, pl(&p), K_ERR + st(&error)], &mut ctx.deps, &ctx.env, None);
            outcome()
        }

        #[sv::msg(reply, handlers=[both], reply_on=success)]
        pub fn both_ok(
            &self,
            mut ctx: ReplyCtx,
            #[sv::data(raw, opt)] data: Option<Binary>,
            #[sv::payload(raw)] p: Binary,
        ) -> Result<Response, RpErr> {
            let (g, e) = ctx_args(&ctx);
            let d = match &data {
                Some(b) => K_DATA + pl(b),
                None => K_NONE,
            };
            rec_mut(420, [g, e, pl(&p), d], &mut ctx.deps, &ctx.env, None);
            outcome()
        }

        #[sv::msg(reply, handlers=[both], reply_on=error)]
        pub fn both_err(&self, mut ctx: ReplyCtx, error: String, #[sv::payload(raw)] p: Binary) -> Result<Response, RpErr> {
            let (g, e) = ctx_args(&ctx);
            rec_mut(421, [g, e, pl(&p), K_ERR + st(&error)], &mut ctx.deps, &ctx.env, None);
            outcome()
        }

        #[sv::msg(reply, handlers=[rev], reply_on=error)]
        pub fn rev_err(&self, mut ctx: ReplyCtx, error: String, #[sv::payload(raw)] p: Binary) -> Result<Response, RpErr> {
            let (g, e) = ctx_args(&ctx);
            rec_mut(430, [g, e, pl(&p), K_ERR + st(&error)], &mut ctx.deps, &ctx.env, None);
            outcome()
        }

        #[sv::msg(reply, handlers=[rev], reply_on=success)]
        pub fn rev_ok(&self, mut ctx: ReplyCtx, #[sv::payload(raw)] p: Binary) -> Result<Response, RpErr> {
            let (g, e) = ctx_args(&ctx);
            rec_mut(431, [g, e, pl(&p), 0], &mut ctx.deps, &ctx.env, None);
            outcome()
        }

        #[sv::msg(reply, reply_on=always)]
        pub fn alw(&self, mut ctx: ReplyCtx, result: SubMsgResult, #[sv::payload(raw)] p: Binary) -> Result<Response, RpErr> {
            let (g, e) = ctx_args(&ctx);
            #[allow(deprecated)]
            let d = match &result {
                SubMsgResult::Ok(r) => {
                    K_ALW_OK + match &r.data {
                        Some(b) => pl(b),
                        None => 0,
                    }
                }
                SubMsgResult::Err(s) => K_ALW_ERR + st(s),
            };
            rec_mut(440, [g, e, pl(&p), d], &mut ctx.deps, &ctx.env, None);
            outcome()
        }

        #[sv::msg(reply, handlers=[h_a, h_b], reply_on=success)]
        pub fn multi(&self, mut ctx: ReplyCtx, #[sv::payload(raw)] p: Binary) -> Result<Response, RpErr> {
            let (g, e) = ctx_args(&ctx);
            rec_mut(450, [g, e, pl(&p), 0], &mut ctx.deps, &ctx.env, None);
            outcome()
        }

        #[sv::msg(reply, reply_on=success)]
        pub fn raw_data(
            &self,
            mut ctx: ReplyCtx,
            #[sv::data(raw)] data: Binary,
            #[sv::payload(raw)] p: Binary,
        ) -> Result<Response, RpErr> {
            let (g, e) = ctx_args(&ctx);
            rec_mut(460, [g, e, pl(&p), K_DATA + pl(&data)], &mut ctx.deps, &ctx.env, None);
            outcome()
        }

        #[sv::msg(reply, reply_on=success)]
        pub fn raw_opt(
            &self,
            mut ctx: ReplyCtx,
            #[sv::data(raw, opt)] data: Option<Binary>,
            #[sv::payload(raw)] p: Binary,
        ) -> Result<Response, RpErr> {
            let (g, e) = ctx_args(&ctx);
            let d = match &data {
                Some(b) => K_DATA + pl(b),
                None => K_NONE,
            };
            rec_mut(470, [g, e, pl(&p), d], &mut ctx.deps, &ctx.env, None);
            outcome()
        }
    }
}
