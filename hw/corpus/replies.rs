// Corpus item `replies`: reply handler tables (feature `replies`), every handler takes a raw payload
// (a typed payload would put `from_json` on every path of `dispatch_reply`, DESIGN P18).
//
// ORACLE TABLE (hand-written): handler name -> methods per outcome, data mode, echo id
//   name       success                      error                   data mode      builder reply_on
//   on_succ    400 on_succ                  - (pass-through)        no marker      Success
//   on_err     - (pass-through)             410 on_err              -              Error
//   both       420 both_ok                  421 both_err            raw, opt       Always
//   rev        431 rev_ok (declared 2nd)    430 rev_err (1st)       no marker      Always
//   alw        440 alw (always)             440 alw (always)        -              Always
//   h_a, h_b   450 multi (handlers=[..])    - (pass-through)        no marker      Success
//   raw_data   460 raw_data                 - (pass-through)        raw            Success
//   raw_opt    470 raw_opt                  - (pass-through)        raw, opt       Success
//
// Echo arguments recorded by every reply handler:
//   args[0] = ctx.gas_used
//   args[1] = ctx.events.len() * 16 + ctx.msg_responses.len()
//   args[2] = payload.len() * 256 + payload[0]
//   args[3] = success handlers with data: 1000 + data.len()*256 + data[0], or 1 for `None`
//             error handlers: 2000 + error.len()*256 + error[0]
//             always: 3000 (Ok) / 4000 (Err) + same detail (data of the response / error text)
//             success handlers without data marker: 0

use support::echo::MyErr;
use sylvia::cw_std::StdError;

#[derive(Debug)]
pub enum RpErr {
    Std(StdError),
    Mine(u8),
}
impl From<StdError> for RpErr {
    fn from(e: StdError) -> Self {
        RpErr::Std(e)
    }
}
impl From<MyErr> for RpErr {
    fn from(e: MyErr) -> Self {
        RpErr::Mine(e.0)
    }
}

pub fn pl(p: &sylvia::cw_std::Binary) -> u64 {
    let s = p.as_slice();
    (s.len() as u64) * 256 + if s.is_empty() { 0 } else { s[0] as u64 }
}

pub fn st(s: &str) -> u64 {
    let b = s.as_bytes();
    (b.len() as u64) * 256 + if b.is_empty() { 0 } else { b[0] as u64 }
}

pub mod rp {
    use super::{pl, st, RpErr};
    use support::echo::{outcome, rec_mut};
    use sylvia::ctx::{InstantiateCtx, ReplyCtx};
    use sylvia::cw_std::{Binary, Response, SubMsgResult};

    pub struct Rp;

    fn ctx_args(ctx: &ReplyCtx) -> (u64, u64) {
        (
            ctx.gas_used,
            (ctx.events.len() as u64) * 16 + ctx.msg_responses.len() as u64,
        )
    }

    #[cfg_attr(corpus_entry_points, sylvia::entry_points)]
    #[sylvia::contract]
    #[sv::error(RpErr)]
    #[sv::features(replies)]
    impl Rp {
        pub const fn new() -> Self {
            Rp
        }

        #[sv::msg(instantiate)]
        pub fn instantiate(&self, _ctx: InstantiateCtx) -> Result<Response, RpErr> {
            Ok(Response::new())
        }

        #[sv::msg(reply, reply_on=success)]
        pub fn on_succ(&self, mut ctx: ReplyCtx, #[sv::payload(raw)] p: Binary) -> Result<Response, RpErr> {
            let (g, e) = ctx_args(&ctx);
            rec_mut(400, [g, e, pl(&p), 0], &mut ctx.deps, &ctx.env, None);
            outcome()
        }

        #[sv::msg(reply, reply_on=error)]
        pub fn on_err(&self, mut ctx: ReplyCtx, error: String, #[sv::payload(raw)] p: Binary) -> Result<Response, RpErr> {
            let (g, e) = ctx_args(&ctx);
            rec_mut(410, [g, e, pl(&p), 2000 + st(&error)], &mut ctx.deps, &ctx.env, None);
            outcome()
        }

        #[sv::msg(reply, handlers=[both], reply_on=success)]
        pub fn both_ok(
            &self,
            mut ctx: ReplyCtx,
            #[sv::data(raw, opt)] data: Option<Binary>,
            #[sv::payload(raw)] p: Binary,
        ) -> Result<Response, RpErr> {
            let (g, e) = ctx_args(&ctx);
            let d = match &data {
                Some(b) => 1000 + pl(b),
                None => 1,
            };
            rec_mut(420, [g, e, pl(&p), d], &mut ctx.deps, &ctx.env, None);
            outcome()
        }

        #[sv::msg(reply, handlers=[both], reply_on=error)]
        pub fn both_err(&self, mut ctx: ReplyCtx, error: String, #[sv::payload(raw)] p: Binary) -> Result<Response, RpErr> {
            let (g, e) = ctx_args(&ctx);
            rec_mut(421, [g, e, pl(&p), 2000 + st(&error)], &mut ctx.deps, &ctx.env, None);
            outcome()
        }

        #[sv::msg(reply, handlers=[rev], reply_on=error)]
        pub fn rev_err(&self, mut ctx: ReplyCtx, error: String, #[sv::payload(raw)] p: Binary) -> Result<Response, RpErr> {
            let (g, e) = ctx_args(&ctx);
            rec_mut(430, [g, e, pl(&p), 2000 + st(&error)], &mut ctx.deps, &ctx.env, None);
            outcome()
        }

        #[sv::msg(reply, handlers=[rev], reply_on=success)]
        pub fn rev_ok(&self, mut ctx: ReplyCtx, #[sv::payload(raw)] p: Binary) -> Result<Response, RpErr> {
            let (g, e) = ctx_args(&ctx);
            rec_mut(431, [g, e, pl(&p), 0], &mut ctx.deps, &ctx.env, None);
            outcome()
        }

        #[sv::msg(reply, reply_on=always)]
        pub fn alw(&self, mut ctx: ReplyCtx, result: SubMsgResult, #[sv::payload(raw)] p: Binary) -> Result<Response, RpErr> {
            let (g, e) = ctx_args(&ctx);
            #[allow(deprecated)]
            let d = match &result {
                SubMsgResult::Ok(r) => {
                    3000 + match &r.data {
                        Some(b) => pl(b),
                        None => 0,
                    }
                }
                SubMsgResult::Err(s) => 4000 + st(s),
            };
            rec_mut(440, [g, e, pl(&p), d], &mut ctx.deps, &ctx.env, None);
            outcome()
        }

        #[sv::msg(reply, handlers=[h_a, h_b], reply_on=success)]
        pub fn multi(&self, mut ctx: ReplyCtx, #[sv::payload(raw)] p: Binary) -> Result<Response, RpErr> {
            let (g, e) = ctx_args(&ctx);
            rec_mut(450, [g, e, pl(&p), 0], &mut ctx.deps, &ctx.env, None);
            outcome()
        }

        #[sv::msg(reply, reply_on=success)]
        pub fn raw_data(
            &self,
            mut ctx: ReplyCtx,
            #[sv::data(raw)] data: Binary,
            #[sv::payload(raw)] p: Binary,
        ) -> Result<Response, RpErr> {
            let (g, e) = ctx_args(&ctx);
            rec_mut(460, [g, e, pl(&p), 1000 + pl(&data)], &mut ctx.deps, &ctx.env, None);
            outcome()
        }

        #[sv::msg(reply, reply_on=success)]
        pub fn raw_opt(
            &self,
            mut ctx: ReplyCtx,
            #[sv::data(raw, opt)] data: Option<Binary>,
            #[sv::payload(raw)] p: Binary,
        ) -> Result<Response, RpErr> {
            let (g, e) = ctx_args(&ctx);
            let d = match &data {
                Some(b) => 1000 + pl(b),
                None => 1,
            };
            rec_mut(470, [g, e, pl(&p), d], &mut ctx.deps, &ctx.env, None);
            outcome()
        }
    }
}
