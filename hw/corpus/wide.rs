// Corpus item `wide`: handlers with MANY same-typed parameters (11: two-digit positions), so that
// any positional mix-up between message fields and handler parameters is observable (C02), also on the
// wire (C01 ordering).  Echo: handler id + all eleven values in `WIDE`.
//   contract Wd: exec wide_e(p1..p11:u64) [1000]   query wide_q(p1..p11:u32) -> Digit [1001]
//                sudo wide_s(p1..p11:u64) [1002]   instantiate wide instantiate(p1..p11:u64) [1003]
//   interface ifw: exec iw(p1..p11:u64) [1010]

use sylvia::cw_std::StdError;

pub static mut WIDE: (u32, [u64; 11]) = (0, [0; 11]);

pub fn rec_wide(id: u32, v: [u64; 11]) {
    unsafe {
        WIDE = (id, v);
    }
}

#[derive(sylvia::serde::Serialize, sylvia::serde::Deserialize, Clone, Debug, PartialEq, sylvia::schemars::JsonSchema)]
#[serde(crate = "sylvia::serde")]
#[schemars(crate = "sylvia::schemars")]
pub struct Digit {
    pub v: u8,
}

pub mod ifw {
    use sylvia::ctx::ExecCtx;
    use sylvia::cw_std::{Response, StdError};

    #[sylvia::interface]
    #[sv::custom(msg=sylvia::cw_std::Empty, query=sylvia::cw_std::Empty)]
    pub trait Ifw {
        type Error: From<StdError>;

        #[sv::msg(exec)]
        #[allow(clippy::too_many_arguments)]
        fn iw(&self, ctx: ExecCtx, p1: u64, p2: u64, p3: u64, p4: u64, p5: u64, p6: u64, p7: u64, p8: u64, p9: u64, p10: u64, p11: u64) -> Result<Response, Self::Error>;
    }
}

pub mod wd {
    use super::{rec_wide, Digit};
    use sylvia::ctx::{ExecCtx, InstantiateCtx, QueryCtx, SudoCtx};
    use sylvia::cw_std::{Response, StdError, StdResult};

    pub struct Wd;

    #[sylvia::contract]
    #[sv::messages(crate::wide::ifw as Ifw)]
    impl Wd {
        pub const fn new() -> Self {
            Wd
        }

        #[sv::msg(instantiate)]
        #[allow(clippy::too_many_arguments)]
        pub fn instantiate(&self, _ctx: InstantiateCtx, p1: u64, p2: u64, p3: u64, p4: u64, p5: u64, p6: u64, p7: u64, p8: u64, p9: u64, p10: u64, p11: u64) -> StdResult<Response> {
            rec_wide(1003, [p1 as u64, p2 as u64, p3 as u64, p4 as u64, p5 as u64, p6 as u64, p7 as u64, p8 as u64, p9 as u64, p10 as u64, p11 as u64]);
            Ok(Response::new())
        }

        #[sv::msg(exec)]
        #[allow(clippy::too_many_arguments)]
        pub fn wide_e(&self, _ctx: ExecCtx, p1: u64, p2: u64, p3: u64, p4: u64, p5: u64, p6: u64, p7: u64, p8: u64, p9: u64, p10: u64, p11: u64) -> StdResult<Response> {
            rec_wide(1000, [p1 as u64, p2 as u64, p3 as u64, p4 as u64, p5 as u64, p6 as u64, p7 as u64, p8 as u64, p9 as u64, p10 as u64, p11 as u64]);
            Ok(Response::new())
        }

        #[sv::msg(query)]
        #[allow(clippy::too_many_arguments)]
        pub fn wide_q(&self, _ctx: QueryCtx, p1: u32, p2: u32, p3: u32, p4: u32, p5: u32, p6: u32, p7: u32, p8: u32, p9: u32, p10: u32, p11: u32) -> StdResult<Digit> {
            rec_wide(1001, [p1 as u64, p2 as u64, p3 as u64, p4 as u64, p5 as u64, p6 as u64, p7 as u64, p8 as u64, p9 as u64, p10 as u64, p11 as u64]);
            Ok(Digit { v: 1 })
        }

        #[sv::msg(sudo)]
        #[allow(clippy::too_many_arguments)]
        pub fn wide_s(&self, _ctx: SudoCtx, p1: u64, p2: u64, p3: u64, p4: u64, p5: u64, p6: u64, p7: u64, p8: u64, p9: u64, p10: u64, p11: u64) -> StdResult<Response> {
            rec_wide(1002, [p1 as u64, p2 as u64, p3 as u64, p4 as u64, p5 as u64, p6 as u64, p7 as u64, p8 as u64, p9 as u64, p10 as u64, p11 as u64]);
            Ok(Response::new())
        }
    }

    impl super::ifw::Ifw for Wd {
        type Error = StdError;

        fn iw(&self, _ctx: ExecCtx, p1: u64, p2: u64, p3: u64, p4: u64, p5: u64, p6: u64, p7: u64, p8: u64, p9: u64, p10: u64, p11: u64) -> StdResult<Response> {
            rec_wide(1010, [p1 as u64, p2 as u64, p3 as u64, p4 as u64, p5 as u64, p6 as u64, p7 as u64, p8 as u64, p9 as u64, p10 as u64, p11 as u64]);
            Ok(Response::new())
        }
    }
}
