// Shared harness code: wire-shape oracles over the serde data model (C01, C03, C15, C17).
//
// A handler is described by hand as `HSpec { name, args: [(arg name, kind)] }` (kind: 8/32/64 = unsigned
// width, 1 = bool).  From it the oracle derives
//   * the exact serde event sequence the message must serialise to (`events_ok`):
//       enum kinds : StructVariant(name, n) (Field(arg_i) Scalar(val_i))* End
//       flat kinds : Struct(n)              (Field(arg_i) Scalar(val_i))* End
//   * whether a received body `{key_j: val_j}` must be accepted (`body_accept`): every argument key
//     exactly once (missing / duplicated -> error), unknown keys ignored (serde's default), every
//     value inside its type's range; and the argument values it must decode to.

use support::doc::{boolean, decode, num, Msg, Obj, E};
use support::rec::{self, Rec, K_BOOL, K_END, K_FIELD, K_STRUCT, K_STRUCT_VARIANT, K_U64};
use support::sym::str_eq;

#[derive(Clone, Copy)]
pub struct HSpec {
    pub name: &'static str,
    pub args: &'static [(&'static str, u8)],
}

pub fn fits(kind: u8, v: u64) -> bool {
    match kind {
        1 => v <= 1,
        8 => v <= u8::MAX as u64,
        32 => v <= u32::MAX as u64,
        _ => true,
    }
}

/// `rec` is exactly the serialisation of handler `h` with argument values `vals` (declaration order).
pub fn events_ok(rec: &Rec, h: &HSpec, vals: &[u64; 3], flat: bool) -> bool {
    let n = h.args.len();
    if rec.overflow || rec.n != 2 + 2 * n {
        return false;
    }
    let head = &rec.ev[0];
    if flat {
        if !(head.k == K_STRUCT && head.num == n as u64) {
            return false;
        }
    } else if !(head.k == K_STRUCT_VARIANT && str_eq(head.s, h.name) && head.num == n as u64) {
        return false;
    }
    let mut i = 0;
    while i < n {
        let f = &rec.ev[1 + 2 * i];
        let v = &rec.ev[2 + 2 * i];
        if !(f.k == K_FIELD && str_eq(f.s, h.args[i].0)) {
            return false;
        }
        let want_kind = if h.args[i].1 == 1 { K_BOOL } else { K_U64 };
        if !(v.k == want_kind && v.num == vals[i]) {
            return false;
        }
        i += 1;
    }
    rec.ev[1 + 2 * n].k == K_END
}

/// Must the body with `keys` / `kvals` be accepted for handler `h`?  On acceptance returns the argument
/// values in declaration order.
pub fn body_accept(h: &HSpec, keys: &[&str], kvals: &[u64]) -> Option<[u64; 3]> {
    let mut out = [0u64; 3];
    let mut i = 0;
    while i < h.args.len() {
        let mut cnt = 0;
        let mut j = 0;
        while j < keys.len() {
            if str_eq(keys[j], h.args[i].0) {
                cnt += 1;
                out[i] = kvals[j];
            }
            j += 1;
        }
        if cnt != 1 || !fits(h.args[i].1, out[i]) {
            return None;
        }
        i += 1;
    }
    Some(out)
}

/// Body layouts (key lists) tried by the decode harnesses; values are symbolic.  One constant per
/// layout so that every size is a compile-time constant.
pub const L0: [&str; 0] = [];
pub const L1: [&str; 2] = ["a", "b"];
pub const L2: [&str; 2] = ["b", "a"];
pub const L3: [&str; 1] = ["a"];
pub const L4: [&str; 3] = ["a", "b", "zz"];
pub const L5: [&str; 2] = ["a", "a"];
pub const L6: [&str; 1] = ["x"];
pub const L7: [&str; 1] = ["n"];
pub const L8: [&str; 1] = ["k"];
pub const L9: [&str; 2] = ["flag", "b"];

/// Is `key` a bool-kinded argument of `h`?  (such values are sent as JSON booleans)
pub fn is_bool_arg(h: &HSpec, key: &str) -> bool {
    let mut i = 0;
    while i < h.args.len() {
        if str_eq(h.args[i].0, key) && h.args[i].1 == 1 {
            return true;
        }
        i += 1;
    }
    false
}

/// Decode handler `h` of message type `T` from `{name: {layout}}` (or the flat `{layout}`), compare
/// with the oracle, and on success check the decoded value by re-serialising it.
pub fn decode_case<T, const K: usize>(h: &HSpec, flat: bool, layout: [&'static str; K], kv: &[u64; 3])
where
    T: sylvia::serde::de::DeserializeOwned + sylvia::serde::Serialize,
{
    let mut vals = [0u64; K];
    let mut scs = [num(0); K];
    let mut j = 0;
    while j < K {
        if is_bool_arg(h, layout[j]) {
            vals[j] = kv[j] & 1;
            scs[j] = boolean(kv[j] & 1 == 1);
        } else {
            vals[j] = kv[j];
            scs[j] = num(kv[j]);
        }
        j += 1;
    }
    let body = Obj { keys: layout, vals: scs };
    let r: Result<T, E> = if flat { decode(body) } else { decode(Msg { name: h.name, body }) };
    let want = body_accept(h, &layout, &vals);
    match (&r, want) {
        (Ok(m), Some(args)) => {
            let rec = match rec::record(m) {
                Ok(r) => r,
                Err(_) => {
                    assert!(false, "generated messages serialise");
                    return;
                }
            };
            assert!(events_ok(&rec, h, &args, flat), "parsing gives back an equal message (fields by name)");
        }
        (Err(_), None) => {}
        (Ok(_), None) => assert!(false, "a body with a missing / duplicated / out-of-range argument must be rejected"),
        (Err(_), Some(_)) => assert!(false, "a body holding every argument exactly once must be accepted"),
    }
    core::mem::forget(r);
}
