// Corpus item `typed`: reply handlers with *typed* payloads.  Only the sub-message builders of this
// contract are exercised (its `dispatch_reply` decodes with `from_json`, out of reach: DESIGN P18).
//
// ORACLE TABLE: name -> payload signature, builder reply_on, payload JSON for digits x, y
//   one   always   (x: u8)          Always    `x`        e.g. 5      (single value: not a tuple)
//   two   success  (x: u8, y: u8)   Success   `[x,y]`    e.g. [5,6]
//   nm    error    (id: u8, reply_on: u8)  Error  `[id,reply_on]`   (parameter names equal to SubMsg field names)

use sylvia::cw_std::StdError;

pub mod tp {
    use sylvia::ctx::{InstantiateCtx, ReplyCtx};
    use sylvia::cw_std::{Response, StdResult, SubMsgResult};

    pub struct Tp;

    #[sylvia::contract]
    #[sv::features(replies)]
    impl Tp {
        pub const fn new() -> Self {
            Tp
        }

        #[sv::msg(instantiate)]
        pub fn instantiate(&self, _ctx: InstantiateCtx) -> StdResult<Response> {
            Ok(Response::new())
        }

        #[sv::msg(reply, reply_on=always)]
        pub fn one(&self, _ctx: ReplyCtx, _result: SubMsgResult, _x: u8) -> StdResult<Response> {
            Ok(Response::new())
        }

        // payload parameters named like fields of the sub-message the builder fills in
        #[sv::msg(reply, reply_on=error)]
        pub fn nm(&self, _ctx: ReplyCtx, _error: String, id: u8, reply_on: u8) -> StdResult<Response> {
            let _ = (id, reply_on);
            Ok(Response::new())
        }

        #[sv::msg(reply, reply_on=success)]
        pub fn two(&self, _ctx: ReplyCtx, _x: u8, _y: u8) -> StdResult<Response> {
            Ok(Response::new())
        }
    }
}
