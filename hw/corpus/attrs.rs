// Corpus item `attrs`: forwarded attributes, observed through their serde behaviour (C17).
//
//   contract At
//     #[sv::msg_attr(exec,    serde(deny_unknown_fields))]     -> only ExecMsg rejects unknown keys
//     #[sv::msg_attr(migrate, serde(deny_unknown_fields))]     -> only MigrateMsg (of the flat kinds)
//     #[sv::msg_attr(instantiate|migrate|sudo, derive(PartialOrd))] + derive(Eq), two attributes each -> both traits
//     exec   ren(n)   with #[sv::attr(serde(rename = "zz"))]   -> that variant answers to `zz`, not `ren`
//     exec   pre(n)   with #[sv::attr(serde(rename = "pz"))] written ABOVE #[sv::msg(exec)] -> answers to `pz`
//     exec   bth(n)   with #[sv::attr(serde(alias = "b1"))] above and #[sv::attr(serde(alias = "b2"))] below
//                                                               -> answers to bth, b1 and b2
//     exec   other(n)                                           -> untouched sibling
//     exec   args(#[serde(default)] d, #[serde(rename = "k")] r, p)
//                                                               -> d optional, r keyed `k`
//     exec   cfa(#[cfg_attr(not(wasm32), serde(default))] c, p)   -> c optional (attribute wrapped in cfg_attr)
//     exec   dbl(#[serde(default)] #[serde(rename = "w")] t, p)   -> t optional AND keyed `w` (two same-path attributes)
//     query  qa(n)     sudo  sa(n)     instantiate(n)     migrate(n)        (no forwarded attribute)
//   interface ifat
//     #[sv::msg_attr(query, serde(deny_unknown_fields))]       -> only the interface's QueryMsg
//     exec ie(n)       exec ip(n) with #[sv::attr(serde(rename = "iy"))] above sv::msg       query iq(n)

pub mod ifat {
    use sylvia::ctx::{ExecCtx, QueryCtx};
    use sylvia::cw_std::{Response, StdError};

    #[sylvia::interface]
    #[sv::custom(msg=sylvia::cw_std::Empty, query=sylvia::cw_std::Empty)]
    #[sv::msg_attr(query, serde(deny_unknown_fields))]
    pub trait Ifat {
        type Error: From<StdError>;

        #[sv::msg(exec)]
        fn ie(&self, ctx: ExecCtx, n: u64) -> Result<Response, Self::Error>;

        #[sv::attr(serde(rename = "iy"))]
        #[sv::msg(exec)]
        fn ip(&self, ctx: ExecCtx, n: u64) -> Result<Response, Self::Error>;

        #[sv::msg(query)]
        fn iq(&self, ctx: QueryCtx, n: u64) -> Result<u8, Self::Error>;
    }
}

pub mod at {
    use sylvia::ctx::{ExecCtx, InstantiateCtx, MigrateCtx, QueryCtx, SudoCtx};
    use sylvia::cw_std::{Response, StdResult};

    pub struct At;

    #[sylvia::contract]
    #[sv::msg_attr(exec, serde(deny_unknown_fields))]
    #[sv::msg_attr(migrate, serde(deny_unknown_fields))]
    // several attributes forwarded to ONE message kind, derives among them, in both orders: every one
    // of them must arrive (crate c17 names the derived traits in its compile gate)
    #[sv::msg_attr(instantiate, derive(PartialOrd))]
    #[sv::msg_attr(instantiate, derive(Eq))]
    #[sv::msg_attr(migrate, derive(Eq))]
    #[sv::msg_attr(migrate, derive(PartialOrd))]
    #[sv::msg_attr(sudo, derive(Eq))]
    #[sv::msg_attr(sudo, derive(PartialOrd))]
    impl At {
        pub const fn new() -> Self {
            At
        }

        #[sv::msg(instantiate)]
        pub fn instantiate(&self, _ctx: InstantiateCtx, n: u64) -> StdResult<Response> {
            let _ = n;
            Ok(Response::new())
        }

        #[sv::msg(migrate)]
        pub fn migrate(&self, _ctx: MigrateCtx, n: u64) -> StdResult<Response> {
            let _ = n;
            Ok(Response::new())
        }

        #[sv::msg(exec)]
        #[sv::attr(serde(rename = "zz"))]
        pub fn ren(&self, _ctx: ExecCtx, n: u64) -> StdResult<Response> {
            let _ = n;
            Ok(Response::new())
        }

        // the forwarded attribute written ABOVE the sv::msg line (no order is documented)
        #[sv::attr(serde(rename = "pz"))]
        #[sv::msg(exec)]
        pub fn pre(&self, _ctx: ExecCtx, n: u64) -> StdResult<Response> {
            let _ = n;
            Ok(Response::new())
        }

        // forwarded attributes on BOTH sides of the sv::msg line
        #[sv::attr(serde(alias = "b1"))]
        #[sv::msg(exec)]
        #[sv::attr(serde(alias = "b2"))]
        pub fn bth(&self, _ctx: ExecCtx, n: u64) -> StdResult<Response> {
            let _ = n;
            Ok(Response::new())
        }

        #[sv::msg(exec)]
        pub fn other(&self, _ctx: ExecCtx, n: u64) -> StdResult<Response> {
            let _ = n;
            Ok(Response::new())
        }

        #[sv::msg(exec)]
        pub fn args(
            &self,
            _ctx: ExecCtx,
            #[serde(default)] d: u64,
            #[serde(rename = "k")] r: u64,
            p: u64,
        ) -> StdResult<Response> {
            let _ = (d, r, p);
            Ok(Response::new())
        }

        // the argument attribute arrives wrapped in cfg_attr (predicate true on every non-wasm target)
        #[sv::msg(exec)]
        pub fn cfa(
            &self,
            _ctx: ExecCtx,
            #[cfg_attr(not(target_arch = "wasm32"), serde(default))] c: u64,
            p: u64,
        ) -> StdResult<Response> {
            let _ = (c, p);
            Ok(Response::new())
        }

        // two separate attributes with the SAME path on one argument: both must arrive
        #[sv::msg(exec)]
        pub fn dbl(
            &self,
            _ctx: ExecCtx,
            #[serde(default)]
            #[serde(rename = "w")]
            t: u64,
            p: u64,
        ) -> StdResult<Response> {
            let _ = (t, p);
            Ok(Response::new())
        }

        #[sv::msg(query)]
        pub fn qa(&self, _ctx: QueryCtx, n: u64) -> StdResult<u8> {
            let _ = n;
            Ok(0)
        }

        #[sv::msg(sudo)]
        pub fn sa(&self, _ctx: SudoCtx, n: u64) -> StdResult<Response> {
            let _ = n;
            Ok(Response::new())
        }
    }
}
