// Corpus item `generic_paths`: a generic contract whose parameters reach the handler signatures only
// through MULTI-SEGMENT paths and where-predicates (the used-generics visitor has to look at every
// segment of a path, not only the first or the last one).
//
//   contract Gp<T, X, U, Y>     where Y: core::cmp::PartialEq<T>   (relates Y to T: must be filtered out
//                                                                of every type not carrying both)
//     instantiate()                                      -> InstantiateMsg           (no parameter)
//     exec   pv(v: std::vec::Vec<T>)                     T only inside the LAST segment of a long path
//     exec   pn(n: u64)                                  no parameter at all
//     sudo   po(o: core::option::Option<X>)              X likewise
//     query  pq(k: self::Wrap<Y>) -> Digit1              Y inside a `self::`-qualified path
//     U: unused
//   `Y` is bound by TWO separate predicates (`Y: P`, `Y: PartialEq<T>`): valid Rust, and what a user who adds
//   a relation to an existing clause writes.  The helper traits used to declare one associated type per
//   predicate and so rejected this contract (defect F6, fixed by `fa5be64`; DESIGN §6a).
//   The helper types carry the `crate = ..` attributes of serde / schemars: the harness crate has no `serde`
//   dependency of its own.
//   expected generated types (ORACLE, hand-written):
//     sv::ExecMsg<T>   sv::SudoMsg<X>   sv::QueryMsg<Y>   sv::InstantiateMsg

pub mod gp {
    use core::marker::PhantomData;
    use sylvia::ctx::{ExecCtx, InstantiateCtx, QueryCtx, SudoCtx};
    use sylvia::cw_std::{Response, StdResult};
    use sylvia::schemars::JsonSchema;
    use sylvia::serde::de::DeserializeOwned;
    use sylvia::serde::{Deserialize, Serialize};

    pub trait P: Serialize + DeserializeOwned + Clone + core::fmt::Debug + PartialEq + JsonSchema + 'static {}
    impl P for u8 {}
    impl P for u32 {}
    impl P for u64 {}

    #[derive(Serialize, Deserialize, Clone, Debug, PartialEq, JsonSchema)]
    #[serde(crate = "sylvia::serde")]
    #[schemars(crate = "sylvia::schemars")]
    pub struct Wrap<T> {
        pub w: T,
    }

    #[derive(Serialize, Deserialize, Clone, Debug, PartialEq, JsonSchema, Default)]
    #[serde(crate = "sylvia::serde")]
    #[schemars(crate = "sylvia::schemars")]
    pub struct Digit1 {
        pub v: u8,
    }

    pub struct Gp<T, X, U, Y> {
        _p: PhantomData<(T, X, U, Y)>,
    }

    #[sylvia::contract]
    impl<T, X, U, Y> Gp<T, X, U, Y>
    where
        T: P,
        X: P,
        U: 'static,
        Y: P,
        Y: core::cmp::PartialEq<T>,
    {
        pub const fn new() -> Self {
            Self { _p: PhantomData }
        }

        #[sv::msg(instantiate)]
        pub fn instantiate(&self, _ctx: InstantiateCtx) -> StdResult<Response> {
            Ok(Response::new())
        }

        #[sv::msg(exec)]
        pub fn pv(&self, _ctx: ExecCtx, v: std::vec::Vec<T>) -> StdResult<Response> {
            let _ = v;
            Ok(Response::new())
        }

        #[sv::msg(exec)]
        pub fn pn(&self, _ctx: ExecCtx, n: u64) -> StdResult<Response> {
            let _ = n;
            Ok(Response::new())
        }

        #[sv::msg(sudo)]
        pub fn po(&self, _ctx: SudoCtx, o: core::option::Option<X>) -> StdResult<Response> {
            let _ = o;
            Ok(Response::new())
        }

        #[sv::msg(query)]
        pub fn pq(&self, _ctx: QueryCtx, k: self::Wrap<Y>) -> StdResult<Digit1> {
            let _ = k;
            Ok(Digit1::default())
        }
    }
}
