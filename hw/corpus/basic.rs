// Corpus item `basic`: one contract with two interfaces, echo handlers of every kind.
//
// Design rules (DESIGN §2.2): sibling handlers of identical signature per kind, two same-typed
// adjacent arguments, multi-word names, names ending in digits, handlers of different kinds sharing a
// name and an argument shape (`tick`: exec in Ct, sudo in ifa, query in ifb; instantiate/migrate share
// their argument names).
//
// ORACLE TABLE (hand-written, independent of the macro): handler id, kind, wire name, arguments.
//   contract Ct
//     100 instantiate  (flat)          a:u32 b:u32
//     101 migrate      (flat)          a:u32 b:u32
//     110 exec   ping                  -
//     111 exec   foo_bar               a:u32 b:u32
//     112 exec   baz_qux               a:u32 b:u32
//     113 exec   foo1                  x:u64
//     114 exec   tick                  n:u64
//     120 query  get                   -            -> Digit
//     121 query  q_two                 a:u32 b:u32  -> Digit
//     130 sudo   tack                  n:u64
//     131 sudo   tock                  n:u64
//   interface ifa (as Ifa)
//     210 exec   ia_one                a:u32 b:u32
//     211 exec   ia_two                a:u32 b:u32
//     220 query  ia_q                  k:u8         -> Digit
//     230 sudo   tick                  n:u64      (same wire name as exec 114 and query 321)
//   interface ifb (as Ifb)
//     310 exec   ib_x                  flag:bool
//     320 query  ib_q22                -            -> Digit
//     321 query  tick                  n:u64        -> Digit
//     330 sudo   ib_s                  n:u64

use support::echo::MyErr;
use sylvia::cw_std::StdError;

/// Query response with one one-digit field, so that `to_json_binary` stays inside the P4 bound.
#[derive(
    sylvia::serde::Serialize,
    sylvia::serde::Deserialize,
    Clone,
    Debug,
    PartialEq,
    sylvia::schemars::JsonSchema,
)]
#[serde(crate = "sylvia::serde")]
#[schemars(crate = "sylvia::schemars")]
pub struct Digit {
    pub v: u8,
}

/// The contract's declared error type.
#[derive(Debug)]
pub enum CtErr {
    Std(StdError),
    Mine(u8),
    Conv(u8),
}
impl core::fmt::Display for CtErr {
    fn fmt(&self, _f: &mut core::fmt::Formatter<'_>) -> core::fmt::Result {
        Ok(())
    }
}
impl std::error::Error for CtErr {}
impl From<StdError> for CtErr {
    fn from(e: StdError) -> Self {
        CtErr::Std(e)
    }
}
impl From<MyErr> for CtErr {
    fn from(e: MyErr) -> Self {
        CtErr::Mine(e.0)
    }
}

/// A handler-local error type convertible into the declared one (exercises `map_err(Into::into)`).
/// Handlers 111 foo_bar, 113 foo1, 121 q_two and 131 tock return it; the oracle expects
/// `CtErr::Conv(code)` from them and `CtErr::Mine(code)` from all others.
#[derive(Debug)]
pub struct HErr(pub u8);
impl From<MyErr> for HErr {
    fn from(e: MyErr) -> Self {
        HErr(e.0)
    }
}
impl From<HErr> for CtErr {
    fn from(e: HErr) -> Self {
        CtErr::Conv(e.0)
    }
}

pub mod ifa {
    use super::Digit;
    use sylvia::ctx::{ExecCtx, QueryCtx, SudoCtx};
    use sylvia::cw_std::{Response, StdError};

    #[sylvia::interface]
    #[sv::custom(msg=sylvia::cw_std::Empty, query=sylvia::cw_std::Empty)]
    pub trait Ifa {
        type Error: From<StdError>;

        // declared in NON-alphabetical order on purpose: the published name list must come out sorted
        // whatever the declaration order (the overlap check relies on it)
        #[sv::msg(exec)]
        fn ia_two(&self, ctx: ExecCtx, a: u32, b: u32) -> Result<Response, Self::Error>;

        #[sv::msg(exec)]
        fn ia_one(&self, ctx: ExecCtx, a: u32, b: u32) -> Result<Response, Self::Error>;

        #[sv::msg(query)]
        fn ia_q(&self, ctx: QueryCtx, k: u8) -> Result<Digit, Self::Error>;

        #[sv::msg(sudo)]
        fn tick(&self, ctx: SudoCtx, n: u64) -> Result<Response, Self::Error>;
    }
}

pub mod ifb {
    use super::Digit;
    use sylvia::ctx::{ExecCtx, QueryCtx, SudoCtx};
    use sylvia::cw_std::{Response, StdError};

    #[sylvia::interface]
    #[sv::custom(msg=sylvia::cw_std::Empty, query=sylvia::cw_std::Empty)]
    pub trait Ifb {
        type Error: From<StdError>;

        #[sv::msg(exec)]
        fn ib_x(&self, ctx: ExecCtx, flag: bool) -> Result<Response, Self::Error>;

        // non-alphabetical on purpose (see ifa)
        #[sv::msg(query)]
        fn tick(&self, ctx: QueryCtx, n: u64) -> Result<Digit, Self::Error>;

        #[sv::msg(query)]
        fn ib_q22(&self, ctx: QueryCtx) -> Result<Digit, Self::Error>;

        #[sv::msg(sudo)]
        fn ib_s(&self, ctx: SudoCtx, n: u64) -> Result<Response, Self::Error>;
    }
}

pub mod ct {
    use super::{CtErr, Digit, HErr};
    use support::echo::{ctl, outcome, q_outcome, rec_mut, rec_ro};
    use sylvia::ctx::{ExecCtx, InstantiateCtx, MigrateCtx, QueryCtx, SudoCtx};
    use sylvia::cw_std::Response;

    pub struct Ct;

    #[cfg_attr(corpus_entry_points, sylvia::entry_points)]
    #[sylvia::contract]
    #[sv::error(CtErr)]
    #[sv::messages(crate::basic::ifa as Ifa)]
    #[sv::messages(crate::basic::ifb as Ifb)]
    impl Ct {
        pub const fn new() -> Self {
            Ct
        }

        #[sv::msg(instantiate)]
        pub fn instantiate(&self, mut ctx: InstantiateCtx, a: u32, b: u32) -> Result<Response, HErr> {
            rec_mut(100, [a as u64, b as u64, 0, 0], &mut ctx.deps, &ctx.env, Some(&ctx.info));
            outcome()
        }

        #[sv::msg(migrate)]
        pub fn migrate(&self, mut ctx: MigrateCtx, a: u32, b: u32) -> Result<Response, CtErr> {
            rec_mut(101, [a as u64, b as u64, 0, 0], &mut ctx.deps, &ctx.env, None);
            outcome()
        }

        #[sv::msg(exec)]
        pub fn ping(&self, mut ctx: ExecCtx) -> Result<Response, CtErr> {
            rec_mut(110, [0; 4], &mut ctx.deps, &ctx.env, Some(&ctx.info));
            outcome()
        }

        #[sv::msg(exec)]
        pub fn foo_bar(&self, mut ctx: ExecCtx, a: u32, b: u32) -> Result<Response, HErr> {
            rec_mut(111, [a as u64, b as u64, 0, 0], &mut ctx.deps, &ctx.env, Some(&ctx.info));
            outcome()
        }

        #[sv::msg(exec)]
        pub fn baz_qux(&self, mut ctx: ExecCtx, a: u32, b: u32) -> Result<Response, CtErr> {
            rec_mut(112, [a as u64, b as u64, 0, 0], &mut ctx.deps, &ctx.env, Some(&ctx.info));
            outcome()
        }

        #[sv::msg(exec)]
        pub fn foo1(&self, mut ctx: ExecCtx, x: u64) -> Result<Response, HErr> {
            rec_mut(113, [x, 0, 0, 0], &mut ctx.deps, &ctx.env, Some(&ctx.info));
            outcome()
        }

        #[sv::msg(exec)]
        pub fn tick(&self, mut ctx: ExecCtx, n: u64) -> Result<Response, CtErr> {
            rec_mut(114, [n, 0, 0, 0], &mut ctx.deps, &ctx.env, Some(&ctx.info));
            outcome()
        }

        #[sv::msg(query)]
        pub fn get(&self, ctx: QueryCtx) -> Result<Digit, CtErr> {
            rec_ro(120, [0; 4], &ctx.deps, &ctx.env);
            q_outcome(Digit { v: ctl().digit })
        }

        #[sv::msg(query)]
        pub fn q_two(&self, ctx: QueryCtx, a: u32, b: u32) -> Result<Digit, HErr> {
            rec_ro(121, [a as u64, b as u64, 0, 0], &ctx.deps, &ctx.env);
            q_outcome(Digit { v: ctl().digit })
        }

        #[sv::msg(sudo)]
        pub fn tack(&self, mut ctx: SudoCtx, n: u64) -> Result<Response, CtErr> {
            rec_mut(130, [n, 0, 0, 0], &mut ctx.deps, &ctx.env, None);
            outcome()
        }

        #[sv::msg(sudo)]
        pub fn tock(&self, mut ctx: SudoCtx, n: u64) -> Result<Response, HErr> {
            rec_mut(131, [n, 0, 0, 0], &mut ctx.deps, &ctx.env, None);
            outcome()
        }
    }
}

mod impl_ifa {
    use super::ct::Ct;
    use super::{CtErr, Digit};
    use support::echo::{ctl, outcome, q_outcome, rec_mut, rec_ro};
    use sylvia::ctx::{ExecCtx, QueryCtx, SudoCtx};
    use sylvia::cw_std::Response;

    impl super::ifa::Ifa for Ct {
        type Error = CtErr;

        fn ia_one(&self, mut ctx: ExecCtx, a: u32, b: u32) -> Result<Response, CtErr> {
            rec_mut(210, [a as u64, b as u64, 0, 0], &mut ctx.deps, &ctx.env, Some(&ctx.info));
            outcome()
        }
        fn ia_two(&self, mut ctx: ExecCtx, a: u32, b: u32) -> Result<Response, CtErr> {
            rec_mut(211, [a as u64, b as u64, 0, 0], &mut ctx.deps, &ctx.env, Some(&ctx.info));
            outcome()
        }
        fn ia_q(&self, ctx: QueryCtx, k: u8) -> Result<Digit, CtErr> {
            rec_ro(220, [k as u64, 0, 0, 0], &ctx.deps, &ctx.env);
            q_outcome(Digit { v: ctl().digit })
        }
        fn tick(&self, mut ctx: SudoCtx, n: u64) -> Result<Response, CtErr> {
            rec_mut(230, [n, 0, 0, 0], &mut ctx.deps, &ctx.env, None);
            outcome()
        }
    }
}

mod impl_ifb {
    use super::ct::Ct;
    use super::{CtErr, Digit};
    use support::echo::{ctl, outcome, q_outcome, rec_mut, rec_ro};
    use sylvia::ctx::{ExecCtx, QueryCtx, SudoCtx};
    use sylvia::cw_std::Response;

    impl super::ifb::Ifb for Ct {
        type Error = CtErr;

        fn ib_x(&self, mut ctx: ExecCtx, flag: bool) -> Result<Response, CtErr> {
            rec_mut(310, [flag as u64, 0, 0, 0], &mut ctx.deps, &ctx.env, Some(&ctx.info));
            outcome()
        }
        fn ib_q22(&self, ctx: QueryCtx) -> Result<Digit, CtErr> {
            rec_ro(320, [0; 4], &ctx.deps, &ctx.env);
            q_outcome(Digit { v: ctl().digit })
        }
        fn tick(&self, ctx: QueryCtx, n: u64) -> Result<Digit, CtErr> {
            rec_ro(321, [n, 0, 0, 0], &ctx.deps, &ctx.env);
            q_outcome(Digit { v: ctl().digit })
        }
        fn ib_s(&self, mut ctx: SudoCtx, n: u64) -> Result<Response, CtErr> {
            rec_mut(330, [n, 0, 0, 0], &mut ctx.deps, &ctx.env, None);
            outcome()
        }
    }
}
