// Corpus item `generic`: a generic contract and an interface with associated types, each type
// parameter used in a different way, plus a non-generic twin obtained by substituting concrete types.
//
//   contract Gc<A, B, V, R, U, W>      where .. , W: PartialOrd<A>   (a bound RELATING two parameters)
//     instantiate()                                   -> InstantiateMsg          (no parameter)
//     exec   ga(a: A)            [601]  direct use
//     exec   gb(b: Option<B>)    [602]  used only inside Option<..>
//     exec   gv(v: Vec<V>)       [603]  used only inside Vec<..>
//     exec   gz(z: A)            [607]  A used again after B and V (interleaved)
//     query  gr() -> R           [604]  used only as a query response
//     sudo   gw(w: W)            [605]
//     migrate gm(w: W)           [606]  -> MigrateMsg<W> (a struct message: carries a filtered where-clause)
//     U: unused
//   expected generated types (ORACLE, hand-written):
//     sv::ExecMsg<A, B, V>   sv::QueryMsg<R>   sv::SudoMsg<W>   sv::InstantiateMsg   sv::MigrateMsg<W>
//   interface Ifg { type T1; type T2; }
//     exec ig(t: Self::T1) [611]      query iq() -> Self::T2 [612]
//     expected: IfgExecMsg<T1>   IfgQueryMsg<T2>
//   twin Gn: the same with A = N64, B = u32, V = u8, R = Digit, W = u64, T1 = u32, T2 = Digit.

use sylvia::cw_std::StdError;
use sylvia::schemars::JsonSchema;
use sylvia::serde::de::DeserializeOwned;
use sylvia::serde::Serialize;

/// What a message parameter must be (the usual serde / schema bounds) + a view as a number for the echo.
pub trait Num: Serialize + DeserializeOwned + Clone + core::fmt::Debug + PartialEq + JsonSchema + 'static {
    fn n(&self) -> u64;
}
impl Num for u8 {
    fn n(&self) -> u64 {
        *self as u64
    }
}
impl Num for u32 {
    fn n(&self) -> u64 {
        *self as u64
    }
}
impl Num for u64 {
    fn n(&self) -> u64 {
        *self
    }
}

#[derive(sylvia::serde::Serialize, sylvia::serde::Deserialize, Clone, Debug, PartialEq, sylvia::schemars::JsonSchema)]
#[serde(crate = "sylvia::serde")]
#[schemars(crate = "sylvia::schemars")]
pub struct N64(pub u64);
impl Num for N64 {
    fn n(&self) -> u64 {
        self.0
    }
}
impl PartialEq<N64> for u64 {
    fn eq(&self, o: &N64) -> bool {
        *self == o.0
    }
}
impl PartialOrd<N64> for u64 {
    fn partial_cmp(&self, o: &N64) -> Option<core::cmp::Ordering> {
        self.partial_cmp(&o.0)
    }
}

#[derive(sylvia::serde::Serialize, sylvia::serde::Deserialize, Clone, Debug, PartialEq, sylvia::schemars::JsonSchema)]
#[serde(crate = "sylvia::serde")]
#[schemars(crate = "sylvia::schemars")]
pub struct Digit {
    pub v: u8,
}
impl Num for Digit {
    fn n(&self) -> u64 {
        self.v as u64
    }
}

/// echo: (handler id, value)
pub static mut GLOG: (u32, u64, u32) = (0, 0, 0);
pub fn grec(id: u32, v: u64) {
    unsafe {
        GLOG = (id, v, GLOG.2 + 1);
    }
}

pub mod ifg {
    use super::Num;
    use sylvia::ctx::{ExecCtx, QueryCtx};
    use sylvia::cw_std::{Response, StdError};

    #[sylvia::interface]
    #[sv::custom(msg=sylvia::cw_std::Empty, query=sylvia::cw_std::Empty)]
    pub trait Ifg {
        type Error: From<StdError>;
        type T1: Num;
        type T2: Num;

        #[sv::msg(exec)]
        fn ig(&self, ctx: ExecCtx, t: Self::T1) -> Result<Response, Self::Error>;

        #[sv::msg(query)]
        fn iq(&self, ctx: QueryCtx) -> Result<Self::T2, Self::Error>;
    }
}

pub mod gc {
    use super::{grec, Num};
    use core::marker::PhantomData;
    use sylvia::ctx::{ExecCtx, InstantiateCtx, MigrateCtx, QueryCtx, SudoCtx};
    use sylvia::cw_std::{Response, StdError, StdResult};

    pub struct Gc<A, B, V, R, U, W> {
        _p: PhantomData<(A, B, V, R, U, W)>,
    }

    #[sylvia::contract]
    #[sv::messages(crate::generic::ifg as Ifg)]
    impl<A, B, V, R, U, W> Gc<A, B, V, R, U, W>
    where
        A: Num,
        B: Num,
        V: Num,
        R: Num + Default,
        U: 'static,
        W: Num + PartialOrd<A>,
    {
        pub const fn new() -> Self {
            Self { _p: PhantomData }
        }

        #[sv::msg(instantiate)]
        pub fn instantiate(&self, _ctx: InstantiateCtx) -> StdResult<Response> {
            grec(600, 0);
            Ok(Response::new())
        }

        #[sv::msg(exec)]
        pub fn ga(&self, _ctx: ExecCtx, a: A) -> StdResult<Response> {
            grec(601, a.n());
            Ok(Response::new())
        }

        #[sv::msg(exec)]
        pub fn gb(&self, _ctx: ExecCtx, b: Option<B>) -> StdResult<Response> {
            grec(602, match &b {
                Some(x) => 1000 + x.n(),
                None => 1,
            });
            Ok(Response::new())
        }

        #[sv::msg(exec)]
        pub fn gv(&self, _ctx: ExecCtx, v: Vec<V>) -> StdResult<Response> {
            grec(603, v.len() as u64 * 1000 + if v.is_empty() { 0 } else { v[0].n() });
            Ok(Response::new())
        }

        // A is used AGAIN after B and V (interleaved uses: each parameter must still be listed once)
        #[sv::msg(exec)]
        pub fn gz(&self, _ctx: ExecCtx, z: A) -> StdResult<Response> {
            grec(607, z.n());
            Ok(Response::new())
        }

        #[sv::msg(query)]
        pub fn gr(&self, _ctx: QueryCtx) -> StdResult<R> {
            grec(604, 0);
            Ok(R::default())
        }

        #[sv::msg(sudo)]
        pub fn gw(&self, _ctx: SudoCtx, w: W) -> StdResult<Response> {
            grec(605, w.n());
            Ok(Response::new())
        }

        // struct messages carry a where-clause: only predicates over THEIR parameters may be kept
        // (`W: Num + PartialOrd<A>` mentions A, which MigrateMsg<W> does not have)
        #[sv::msg(migrate)]
        pub fn gm(&self, _ctx: MigrateCtx, w: W) -> StdResult<Response> {
            grec(606, w.n());
            Ok(Response::new())
        }
    }

    impl<A, B, V, R, U, W> super::ifg::Ifg for Gc<A, B, V, R, U, W>
    where
        A: Num,
        B: Num,
        V: Num,
        R: Num + Default,
        U: 'static,
        W: Num + PartialOrd<A>,
    {
        type Error = StdError;
        type T1 = B;
        type T2 = R;

        fn ig(&self, _ctx: ExecCtx, t: B) -> StdResult<Response> {
            grec(611, t.n());
            Ok(Response::new())
        }
        fn iq(&self, _ctx: QueryCtx) -> StdResult<R> {
            grec(612, 0);
            Ok(R::default())
        }
    }
}

impl Default for Digit {
    fn default() -> Self {
        Digit { v: 3 }
    }
}

/// Non-generic twin: the same program with the concrete types substituted.
pub mod gn {
    use super::{grec, Digit, Num, N64};
    use sylvia::ctx::{ExecCtx, InstantiateCtx, MigrateCtx, QueryCtx, SudoCtx};
    use sylvia::cw_std::{Response, StdError, StdResult};

    pub mod ifn {
        use super::super::Digit;
        use sylvia::ctx::{ExecCtx, QueryCtx};
        use sylvia::cw_std::{Response, StdError};

        #[sylvia::interface]
        #[sv::custom(msg=sylvia::cw_std::Empty, query=sylvia::cw_std::Empty)]
        pub trait Ifn {
            type Error: From<StdError>;

            #[sv::msg(exec)]
            fn ig(&self, ctx: ExecCtx, t: u32) -> Result<Response, Self::Error>;

            #[sv::msg(query)]
            fn iq(&self, ctx: QueryCtx) -> Result<Digit, Self::Error>;
        }
    }

    pub struct Gn;

    #[sylvia::contract]
    #[sv::messages(crate::generic::gn::ifn as Ifn)]
    impl Gn {
        pub const fn new() -> Self {
            Gn
        }

        #[sv::msg(instantiate)]
        pub fn instantiate(&self, _ctx: InstantiateCtx) -> StdResult<Response> {
            grec(600, 0);
            Ok(Response::new())
        }

        #[sv::msg(exec)]
        pub fn ga(&self, _ctx: ExecCtx, a: N64) -> StdResult<Response> {
            grec(601, a.n());
            Ok(Response::new())
        }

        #[sv::msg(exec)]
        pub fn gb(&self, _ctx: ExecCtx, b: Option<u32>) -> StdResult<Response> {
            grec(602, match &b {
                Some(x) => 1000 + x.n(),
                None => 1,
            });
            Ok(Response::new())
        }

        #[sv::msg(exec)]
        pub fn gv(&self, _ctx: ExecCtx, v: Vec<u8>) -> StdResult<Response> {
            grec(603, v.len() as u64 * 1000 + if v.is_empty() { 0 } else { v[0].n() });
            Ok(Response::new())
        }

        #[sv::msg(exec)]
        pub fn gz(&self, _ctx: ExecCtx, z: N64) -> StdResult<Response> {
            grec(607, z.n());
            Ok(Response::new())
        }

        #[sv::msg(query)]
        pub fn gr(&self, _ctx: QueryCtx) -> StdResult<Digit> {
            grec(604, 0);
            Ok(Digit::default())
        }

        #[sv::msg(sudo)]
        pub fn gw(&self, _ctx: SudoCtx, w: u64) -> StdResult<Response> {
            grec(605, w.n());
            Ok(Response::new())
        }

        #[sv::msg(migrate)]
        pub fn gm(&self, _ctx: MigrateCtx, w: u64) -> StdResult<Response> {
            grec(606, w.n());
            Ok(Response::new())
        }
    }

    impl ifn::Ifn for Gn {
        type Error = StdError;

        fn ig(&self, _ctx: ExecCtx, t: u32) -> StdResult<Response> {
            grec(611, t.n());
            Ok(Response::new())
        }
        fn iq(&self, _ctx: QueryCtx) -> StdResult<Digit> {
            grec(612, 0);
            Ok(Digit::default())
        }
    }
}

/// A second generic contract: its parameter `P` occurs in the query messages ONLY as the response type
/// given through `resp=P` (the handler's own return type is an alias hiding it), `Q` only in a query
/// ARGUMENT next to a concrete `resp=`.  `QueryMsg` must be generic over exactly <Q, P>... in
/// declaration order of the contract's parameters: <P, Q>.
pub mod gs {
    use super::{Digit, Num};
    use core::marker::PhantomData;
    use sylvia::ctx::{InstantiateCtx, QueryCtx};
    use sylvia::cw_std::{Response, StdError, StdResult};

    pub type Loaded<T> = Result<T, StdError>;

    pub struct Gs<P, Q> {
        _p: PhantomData<(P, Q)>,
    }

    #[sylvia::contract]
    impl<P, Q> Gs<P, Q>
    where
        P: Num + Default,
        Q: Num,
    {
        pub const fn new() -> Self {
            Self { _p: PhantomData }
        }

        #[sv::msg(instantiate)]
        pub fn instantiate(&self, _ctx: InstantiateCtx) -> StdResult<Response> {
            Ok(Response::new())
        }

        #[sv::msg(query, resp=P)]
        pub fn value(&self, _ctx: QueryCtx) -> Loaded<P> {
            Ok(P::default())
        }

        #[sv::msg(query, resp=Digit)]
        pub fn other(&self, _ctx: QueryCtx, q: Q) -> Loaded<Digit> {
            let _ = q;
            Ok(Digit { v: 0 })
        }
    }
}
