// Shared harness code over corpus `basic`: received-name harnesses (C01(c), C03(a), C05(b)).
//
// For a message enum `T`, a received name `s` of concrete length L with symbolic bytes over
// [a-z][a-z0-9_]*:
//   accepted(s)  := decoding the serde-doc {s: {}} with T's *derived* decoder does not answer
//                   "unknown variant"            (real generated code)
//   in_table(s)  := s ∈ <part>::sv::<kind>_messages()   (real generated code)
//   in_oracle(s) := s ∈ the hand-written list of the corpus table (method names)
// C01(c): accepted ⇔ in_oracle.   C03(a)/C05(b): accepted ⇔ in_table.

use support::doc::{decode, Msg, E, EMPTY0};
use support::sym::{is_lower, is_name_byte, str_eq};

pub fn any_name<const L: usize>() -> [u8; L] {
    let b: [u8; L] = kani::any();
    let mut i = 0;
    while i < L {
        if i == 0 {
            kani::assume(is_lower(b[0]) || b[0] == b'_');
        } else {
            kani::assume(is_name_byte(b[i]));
        }
        i += 1;
    }
    b
}

pub fn as_str<const L: usize>(b: &[u8; L]) -> &str {
    unsafe { core::str::from_utf8_unchecked(b) }
}

pub fn in_list(s: &str, list: &[&str]) -> bool {
    let mut i = 0;
    while i < list.len() {
        if str_eq(s, list[i]) {
            return true;
        }
        i += 1;
    }
    false
}

/// Does the derived decoder of `T` know `name` as a variant?
pub fn accepted<T: sylvia::serde::de::DeserializeOwned>(name: &str) -> bool {
    let r: Result<T, E> = decode(Msg { name, body: EMPTY0 });
    let acc = !matches!(r, Err(E::UnknownVariant));
    core::mem::forget(r);
    acc
}

/// strictly increasing (sorted and duplicate-free)
pub fn strictly_sorted(list: &[&str]) -> bool {
    let mut i = 0;
    while i + 1 < list.len() {
        if !support::sym::str_lt(list[i], list[i + 1]) {
            return false;
        }
        i += 1;
    }
    true
}

/// One harness: message type, name length, generated table, hand-written oracle list.
#[macro_export]
macro_rules! names_harness {
    ($name:ident, $ty:ty, $len:literal, $unw:literal, $table:expr, [$($oracle:literal),*]) => {
        #[kani::proof]
        #[kani::unwind($unw)]
        fn $name() {
            use $crate::basic_names_h::*;
            let b = any_name::<$len>();
            let s = as_str(&b);
            let table = $table;
            let oracle: &[&str] = &[$($oracle),*];
            let acc = accepted::<$ty>(s);
            assert!(acc == in_list(s, oracle), "C01: the type accepts one message name per annotated method of its kind and no other");
            assert!(acc == in_list(s, &table), "C03/C05: the published name list is exactly the set of names the part's messages decode under");
            assert!(strictly_sorted(&table), "C05: the published list is sorted and duplicate-free");
            kani::cover!(acc, "some name of this length is accepted");
            kani::cover!(!acc, "some name of this length is rejected");
        }
    };
}
