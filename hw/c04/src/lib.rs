//! C04 — handlers are reachable only through the entry point of their own kind.
#![allow(clippy::all)]
#![allow(dead_code, unused_imports, unused_mut, static_mut_refs, deprecated, non_snake_case)]

#[path = "../../corpus/basic.rs"]
pub mod basic;

/// unusual method identifiers: dispatch must still call the method the attribute sits on
#[path = "../../corpus/names.rs"]
pub mod names;

/// Contracts with `#[sv::override_entry_point(kind = ..)]` (10 configurations, shared with C06): an
/// override registered under ANOTHER kind would make the entry point of that other kind take the wrong
/// message.  The gate names every generated entry point with the message type of its own kind.
#[path = "../../corpus/ovr.rs"]
pub mod ovr;
pub mod ovr_gate {
    include!("../../c06/src/ovr_exist.rs");
}

/// Compile gate (also native): the generated entry points of corpus `basic` take the CONTRACT-LEVEL
/// message of their kind.
#[cfg(corpus_entry_points)]
#[allow(dead_code)]
pub fn entry_points_typed() {
    use crate::basic::ct::{entry_points as ep, sv};
    use crate::basic::CtErr;
    use sylvia::cw_std::{Binary, Deps, DepsMut, Empty, Env, MessageInfo, Response};
    let _: for<'a> fn(DepsMut<'a, Empty>, Env, MessageInfo, sv::InstantiateMsg) -> Result<Response<Empty>, CtErr> = ep::instantiate;
    let _: for<'a> fn(DepsMut<'a, Empty>, Env, MessageInfo, sv::ContractExecMsg) -> Result<Response<Empty>, CtErr> = ep::execute;
    let _: for<'a> fn(Deps<'a, Empty>, Env, sv::ContractQueryMsg) -> Result<Binary, CtErr> = ep::query;
    let _: for<'a> fn(DepsMut<'a, Empty>, Env, sv::ContractSudoMsg) -> Result<Response<Empty>, CtErr> = ep::sudo;
    let _: for<'a> fn(DepsMut<'a, Empty>, Env, sv::MigrateMsg) -> Result<Response<Empty>, CtErr> = ep::migrate;
}

#[cfg(kani)]
mod h {
    use crate::basic::ct::entry_points;
    use crate::basic::ct::sv::{ContractExecMsg, ContractQueryMsg, ContractSudoMsg, InstantiateMsg, MigrateMsg};
    use crate::basic::CtErr;
    use support::call::{any_in, In};
    use support::doc::{boolean, decode, num, Msg, Obj, E, EMPTY0};
    use support::echo;
    use support::env::World;
    use support::stubs::{bt_disabled, fmt_stub, push_str_stub};
    use sylvia::serde::Deserializer;

    #[derive(Clone, Copy, PartialEq)]
    enum Kind {
        Inst,
        Migr,
        Exec,
        Query,
        Sudo,
    }

    /// Hand-written table: kind of every echo handler id of corpus `basic`.
    fn kind_of(id: u32) -> Kind {
        match id {
            100 => Kind::Inst,
            101 => Kind::Migr,
            110..=114 | 210 | 211 | 310 => Kind::Exec,
            120 | 121 | 220 | 320 | 321 => Kind::Query,
            _ => Kind::Sudo,
        }
    }

    /// After sending a document to the K2 entry point: nothing of another kind ran.
    fn only_kind(k2: Kind, accepted: bool, w: &World) {
        let l = echo::log();
        if accepted {
            assert!(l.count == 1, "an accepted message runs exactly one handler");
            assert!(kind_of(l.id) == k2, "only a handler annotated with the entry point's kind may run");
        } else {
            assert!(l.count == 0 && w.storage.writes == 0, "a rejected document runs nothing");
        }
    }

    macro_rules! send {
        // enum-kinded entry points
        ($fname:ident, $k2:expr, $ty:ty, |$deps:ident, $i:ident, $m:ident| $call:expr, $mutable:tt) => {
            fn $fname<'de, D: Deserializer<'de, Error = E> + Copy>(i: &In, doc: D) -> (bool, u32) {
                let $i = i;
                let mut w = i.world();
                let r: Result<$ty, E> = decode(doc);
                let accepted = match r {
                    Ok($m) => {
                        let out = {
                            send!(@deps $mutable, w, $deps);
                            $call
                        };
                        core::mem::forget(out);
                        true
                    }
                    Err(_) => false,
                };
                only_kind($k2, accepted, &w);
                (accepted, echo::log().id)
            }
        };
        (@deps mutable, $w:ident, $deps:ident) => { let $deps = $w.deps_mut(); };
        (@deps readonly, $w:ident, $deps:ident) => { let $deps = $w.deps(); };
    }
    send!(to_exec, Kind::Exec, ContractExecMsg, |deps, i, m| entry_points::execute(deps, i.env(), i.info(), m), mutable);
    send!(to_query, Kind::Query, ContractQueryMsg, |deps, i, m| entry_points::query(deps, i.env(), m), readonly);
    send!(to_sudo, Kind::Sudo, ContractSudoMsg, |deps, i, m| entry_points::sudo(deps, i.env(), m), mutable);
    send!(to_inst, Kind::Inst, InstantiateMsg, |deps, i, m| entry_points::instantiate(deps, i.env(), i.info(), m), mutable);
    send!(to_migr, Kind::Migr, MigrateMsg, |deps, i, m| entry_points::migrate(deps, i.env(), m), mutable);

    /// Oracle: where K2 has no message of that name / shape, decoding fails; where it has one
    /// (`tick{n}`, the only wire name shared between kinds; the flat {a,b} shared by instantiate and
    /// migrate), K2's OWN handler of that name runs.
    fn judge(acc: bool, id: u32, is_tick: bool, is_flat: bool, tick: u32, flat_ok: bool, a: u64, b: u64) {
        let in_range = a <= u32::MAX as u64 && b <= u32::MAX as u64;
        if is_tick && tick != 0 {
            assert!(acc && id == tick, "shared wire name: the entry point's own handler runs");
        } else if is_flat && flat_ok {
            assert!(acc == in_range, "flat message accepted by the other flat kind");
        } else {
            assert!(!acc, "no message of that name in this kind: decoding fails");
        }
    }

    /// Every well-formed message of kind K1 (symbolic choice, symbolic argument values) is sent to
    /// the entry point `$to` of kind K2 != K1.  `$tick` = id of `$to`'s own handler for `tick{n}`.
    macro_rules! cross {
        (@head $name:ident, $unw:literal, $body:block) => {
            #[kani::proof]
            #[kani::unwind($unw)]
            #[kani::stub(std::backtrace::Backtrace::capture, bt_disabled)]
            #[kani::stub(alloc::fmt::format, fmt_stub)]
            #[kani::stub(alloc::string::String::push_str, push_str_stub)]
            fn $name() $body
        };
        ($name:ident, exec => $to:ident, $tick:expr, $flat_ok:literal, $unw:literal) => {
            cross!(@head $name, $unw, {
                let i = any_in();
                let a: u64 = kani::any();
                let b: u64 = kani::any();
                let sel: u8 = kani::any();
                kani::assume(sel < 8);
                let ab = Obj { keys: ["a", "b"], vals: [num(a), num(b)] };
                let (acc, id) = match sel {
                    0 => $to(&i, Msg { name: "ping", body: EMPTY0 }),
                    1 => $to(&i, Msg { name: "foo_bar", body: ab }),
                    2 => $to(&i, Msg { name: "baz_qux", body: ab }),
                    3 => $to(&i, Msg { name: "foo1", body: Obj { keys: ["x"], vals: [num(a)] } }),
                    4 => $to(&i, Msg { name: "tick", body: Obj { keys: ["n"], vals: [num(a)] } }),
                    5 => $to(&i, Msg { name: "ia_one", body: ab }),
                    6 => $to(&i, Msg { name: "ia_two", body: ab }),
                    _ => $to(&i, Msg { name: "ib_x", body: Obj { keys: ["flag"], vals: [boolean(a & 1 == 1)] } }),
                };
                judge(acc, id, sel == 4, false, $tick, $flat_ok, a, b);
                kani::cover!(sel == 4, "the shared wire name");
                kani::cover!(!acc, "a foreign-kind message that is rejected");
            });
        };
        ($name:ident, query => $to:ident, $tick:expr, $flat_ok:literal, $unw:literal) => {
            cross!(@head $name, $unw, {
                let i = any_in();
                let a: u64 = kani::any();
                let b: u64 = kani::any();
                let sel: u8 = kani::any();
                kani::assume(sel < 5);
                let ab = Obj { keys: ["a", "b"], vals: [num(a), num(b)] };
                let (acc, id) = match sel {
                    0 => $to(&i, Msg { name: "get", body: EMPTY0 }),
                    1 => $to(&i, Msg { name: "q_two", body: ab }),
                    2 => $to(&i, Msg { name: "ia_q", body: Obj { keys: ["k"], vals: [num(a & 0xff)] } }),
                    3 => $to(&i, Msg { name: "ib_q22", body: EMPTY0 }),
                    _ => $to(&i, Msg { name: "tick", body: Obj { keys: ["n"], vals: [num(a)] } }),
                };
                judge(acc, id, sel == 4, false, $tick, $flat_ok, a, b);
                kani::cover!(sel == 4, "the shared wire name");
                kani::cover!(!acc, "a foreign-kind message that is rejected");
            });
        };
        ($name:ident, sudo => $to:ident, $tick:expr, $flat_ok:literal, $unw:literal) => {
            cross!(@head $name, $unw, {
                let i = any_in();
                let a: u64 = kani::any();
                let sel: u8 = kani::any();
                kani::assume(sel < 4);
                let n = Obj { keys: ["n"], vals: [num(a)] };
                let (acc, id) = match sel {
                    0 => $to(&i, Msg { name: "tack", body: n }),
                    1 => $to(&i, Msg { name: "tock", body: n }),
                    2 => $to(&i, Msg { name: "tick", body: n }),
                    _ => $to(&i, Msg { name: "ib_s", body: n }),
                };
                judge(acc, id, sel == 2, false, $tick, $flat_ok, a, 0);
                kani::cover!(sel == 2, "the shared wire name");
                kani::cover!(!acc, "a foreign-kind message that is rejected");
            });
        };
        ($name:ident, flat => $to:ident, $tick:expr, $flat_ok:literal, $unw:literal) => {
            cross!(@head $name, $unw, {
                let i = any_in();
                let a: u64 = kani::any();
                let b: u64 = kani::any();
                let (acc, id) = $to(&i, Obj { keys: ["a", "b"], vals: [num(a), num(b)] });
                judge(acc, id, false, true, $tick, $flat_ok, a, b);
                kani::cover!(true, "flat message sent");
            });
        };
    }
    // to execute
    cross!(x_query_to_exec, query => to_exec, 114u32, false, 9);
    cross!(x_sudo_to_exec, sudo => to_exec, 114u32, false, 9);
    cross!(x_flat_to_exec, flat => to_exec, 114u32, false, 9);
    // to query
    cross!(x_exec_to_query, exec => to_query, 321u32, false, 10);
    cross!(x_sudo_to_query, sudo => to_query, 321u32, false, 10);
    cross!(x_flat_to_query, flat => to_query, 321u32, false, 10);
    // to sudo
    cross!(x_exec_to_sudo, exec => to_sudo, 230u32, false, 9);
    cross!(x_query_to_sudo, query => to_sudo, 230u32, false, 9);
    cross!(x_flat_to_sudo, flat => to_sudo, 230u32, false, 9);
    // to instantiate / migrate (flat messages: the other flat kind has the same shape)
    cross!(x_exec_to_inst, exec => to_inst, 0u32, true, 9);
    cross!(x_query_to_inst, query => to_inst, 0u32, true, 9);
    cross!(x_sudo_to_inst, sudo => to_inst, 0u32, true, 9);
    cross!(x_flat_to_inst, flat => to_inst, 0u32, true, 9);
    cross!(x_exec_to_migr, exec => to_migr, 0u32, true, 9);
    cross!(x_query_to_migr, query => to_migr, 0u32, true, 9);
    cross!(x_sudo_to_migr, sudo => to_migr, 0u32, true, 9);
    cross!(x_flat_to_migr, flat => to_migr, 0u32, true, 9);

    /// Every published list holds only names of handlers of its own kind (hand-written lists).
    #[kani::proof]
    #[kani::unwind(9)]
    fn x_tables_by_kind() {
        use crate::basic::ct::sv as ct;
        use crate::basic::ifa::sv as ifa;
        use crate::basic::ifb::sv as ifb;
        use support::sym::str_eq;
        fn same(t: &[&str], want: &[&str]) -> bool {
            if t.len() != want.len() {
                return false;
            }
            let mut i = 0;
            while i < t.len() {
                if !str_eq(t[i], want[i]) {
                    return false;
                }
                i += 1;
            }
            true
        }
        assert!(same(&ct::execute_messages(), &["baz_qux", "foo1", "foo_bar", "ping", "tick"]));
        assert!(same(&ct::query_messages(), &["get", "q_two"]));
        assert!(same(&ct::sudo_messages(), &["tack", "tock"]));
        assert!(same(&ifa::execute_messages(), &["ia_one", "ia_two"]));
        assert!(same(&ifa::query_messages(), &["ia_q"]));
        assert!(same(&ifa::sudo_messages(), &["tick"]));
        assert!(same(&ifb::execute_messages(), &["ib_x"]));
        assert!(same(&ifb::query_messages(), &["ib_q22", "tick"]));
        assert!(same(&ifb::sudo_messages(), &["ib_s"]));
        kani::cover!(true);
    }

    // @PLAYBACK h@
}
