//! C17 — forwarded attributes land on exactly the designated item (observed through serde behaviour).
#![allow(clippy::all)]
#![allow(dead_code, unused_imports, unused_mut, static_mut_refs, deprecated)]

#[path = "../../corpus/attrs.rs"]
pub mod attrs;

#[cfg(kani)]
#[path = "../../corpus/basic_names_h.rs"]
pub mod basic_names_h;

/// Compile gate: every attribute forwarded with `sv::msg_attr` arrives on its message type -- two
/// separate `derive(..)` attributes per kind, written in either order, give BOTH traits.
pub fn _forwarded_derives_arrive() {
    fn both<T: PartialOrd + Eq>() {}
    both::<attrs::at::sv::InstantiateMsg>();
    both::<attrs::at::sv::MigrateMsg>();
    both::<attrs::at::sv::SudoMsg>();
}

#[cfg(kani)]
mod h {
    use crate::attrs::at::sv::{ExecMsg, InstantiateMsg, MigrateMsg, QueryMsg, SudoMsg};
    use crate::attrs::ifat::sv::{IfatExecMsg, IfatQueryMsg};
    use crate::basic_names_h::{accepted, any_name, as_str, in_list};
    use support::doc::{decode, num, Msg, Obj, E};
    use support::rec::{record, K_END, K_FIELD, K_STRUCT_VARIANT, K_U64};
    use support::sym::str_eq;

    /// `#[sv::msg_attr(kind, serde(deny_unknown_fields))]` reaches the generated type of that kind and
    /// no other: a body with an extra key is rejected exactly by ExecMsg and MigrateMsg of the contract
    /// and by the interface's QueryMsg; the same body without the extra key is accepted by all.
    #[kani::proof]
    #[kani::unwind(8)]
    fn deny_only_on_designated_kinds() {
        let v: u64 = kani::any();
        let w: u64 = kani::any();
        let extra: bool = kani::any();
        let sel: u8 = kani::any();
        kani::assume(sel < 7);
        let plain = Obj { keys: ["n"], vals: [num(v)] };
        let with_extra = Obj { keys: ["n", "u"], vals: [num(v), num(w)] };
        macro_rules! dec {
            ($ty:ty, $name:literal) => {
                if extra {
                    decode::<$ty, _>(Msg { name: $name, body: with_extra }).is_ok()
                } else {
                    decode::<$ty, _>(Msg { name: $name, body: plain }).is_ok()
                }
            };
        }
        let (ok, denies) = match sel {
            0 => (dec!(ExecMsg, "other"), true),
            1 => (dec!(QueryMsg, "qa"), false),
            2 => (dec!(SudoMsg, "sa"), false),
            3 => (if extra { decode::<InstantiateMsg, _>(with_extra).is_ok() } else { decode::<InstantiateMsg, _>(plain).is_ok() }, false),
            4 => (if extra { decode::<MigrateMsg, _>(with_extra).is_ok() } else { decode::<MigrateMsg, _>(plain).is_ok() }, true),
            5 => (dec!(IfatExecMsg, "ie"), false),
            _ => (dec!(IfatQueryMsg, "iq"), true),
        };
        assert!(ok == !(extra && denies), "unknown key rejected exactly by the kinds the attribute was forwarded to");
        kani::cover!(extra && denies && !ok, "rejected by a designated kind");
        kani::cover!(extra && !denies && ok, "accepted by an undesignated kind");
    }

    /// `#[sv::attr(serde(rename = "zz"))]` on handler `ren` reaches that variant only: received names
    /// of length 2..5 (symbolic bytes) are accepted iff they are `zz`, `args`, `other`; `ren` is not.
    macro_rules! rename_names {
        ($name:ident, $len:literal, [$($ok:literal),*]) => {
            #[kani::proof]
            #[kani::unwind(8)]
            fn $name() {
                let b = any_name::<$len>();
                let s = as_str(&b);
                let oracle: &[&str] = &[$($ok),*];
                let acc = accepted::<ExecMsg>(s);
                assert!(acc == in_list(s, oracle), "only the designated variant is renamed");
                kani::cover!(!acc);
            }
        };
    }
    rename_names!(rename_2, 2, ["zz", "pz", "b1", "b2"]);
    rename_names!(rename_3, 3, ["bth", "cfa", "dbl"]);
    rename_names!(rename_4, 4, ["args"]);
    rename_names!(rename_5, 5, ["other"]);

    /// the same on an interface: `ip` (attribute above sv::msg) answers to `iy` only
    #[kani::proof]
    #[kani::unwind(8)]
    fn rename_iface_2() {
        let b = any_name::<2>();
        let s = as_str(&b);
        let acc = accepted::<IfatExecMsg>(s);
        assert!(acc == in_list(s, &["ie", "iy"]), "only the designated variant is renamed");
        kani::cover!(acc);
        kani::cover!(!acc);
    }

    /// ... and the renamed variant serialises under `zz`, its sibling under `other`.
    #[kani::proof]
    #[kani::unwind(8)]
    fn rename_serialise() {
        let n: u64 = kani::any();
        let a = record(&ExecMsg::Ren { n });
        let b = record(&ExecMsg::Other { n });
        match (&a, &b) {
            (Ok(a), Ok(b)) => {
                assert!(a.ev[0].k == K_STRUCT_VARIANT && str_eq(a.ev[0].s, "zz"));
                assert!(b.ev[0].k == K_STRUCT_VARIANT && str_eq(b.ev[0].s, "other"));
                assert!(a.ev[2].k == K_U64 && a.ev[2].num == n && b.ev[2].num == n);
            }
            _ => assert!(false),
        }
        kani::cover!(true);
    }

    /// Attributes written on handler ARGUMENTS reach the corresponding field: `d` is optional
    /// (default), `r` is keyed `k`, `p` is plain.  Body layouts with symbolic values.
    #[kani::proof]
    #[kani::unwind(8)]
    fn field_attributes() {
        let v: [u64; 3] = kani::any();
        let sel: u8 = kani::any();
        kani::assume(sel < 6);
        // (accepted?, d, r, p) expected
        let (r, want): (Result<ExecMsg, E>, Option<(u64, u64, u64)>) = match sel {
            0 => (decode(Msg { name: "args", body: Obj { keys: ["d", "k", "p"], vals: [num(v[0]), num(v[1]), num(v[2])] } }), Some((v[0], v[1], v[2]))),
            1 => (decode(Msg { name: "args", body: Obj { keys: ["k", "p"], vals: [num(v[1]), num(v[2])] } }), Some((0, v[1], v[2]))),
            2 => (decode(Msg { name: "args", body: Obj { keys: ["p", "k"], vals: [num(v[2]), num(v[1])] } }), Some((0, v[1], v[2]))),
            3 => (decode(Msg { name: "args", body: Obj { keys: ["d", "r", "p"], vals: [num(v[0]), num(v[1]), num(v[2])] } }), None),
            4 => (decode(Msg { name: "args", body: Obj { keys: ["d", "k"], vals: [num(v[0]), num(v[1])] } }), None),
            _ => (decode(Msg { name: "args", body: Obj { keys: ["p"], vals: [num(v[2])] } }), None),
        };
        match (&r, want) {
            (Ok(ExecMsg::Args { d, r, p }), Some((wd, wr, wp))) => {
                assert!(*d == wd && *r == wr && *p == wp, "defaulted field is 0 when absent; renamed field read from `k`");
            }
            (Err(_), None) => {}
            (Ok(_), _) => assert!(false, "a body without `k` or without `p` must be rejected (only `d` is optional)"),
            (Err(_), Some(_)) => assert!(false, "`d` is optional and `r` is keyed `k`"),
        }
        // and on the way out: fields d, k, p in declaration order
        if let Ok(m) = &r {
            match record(m) {
                Ok(rec) => {
                    assert!(rec.n == 8 && str_eq(rec.ev[0].s, "args"));
                    assert!(rec.ev[1].k == K_FIELD && str_eq(rec.ev[1].s, "d"));
                    assert!(rec.ev[3].k == K_FIELD && str_eq(rec.ev[3].s, "k"));
                    assert!(rec.ev[5].k == K_FIELD && str_eq(rec.ev[5].s, "p"));
                    assert!(rec.ev[7].k == K_END);
                }
                Err(_) => assert!(false),
            }
        }
        kani::cover!(sel == 1 && r.is_ok(), "defaulted field absent");
        kani::cover!(sel == 3, "unrenamed key sent");
        core::mem::forget(r);
    }

    /// An argument attribute wrapped in `cfg_attr(<true predicate>, ..)` lands on the field as well.
    #[kani::proof]
    #[kani::unwind(8)]
    fn field_attribute_in_cfg_attr() {
        let v: [u64; 2] = kani::any();
        let with: Result<ExecMsg, E> = decode(Msg { name: "cfa", body: Obj { keys: ["c", "p"], vals: [num(v[0]), num(v[1])] } });
        let without: Result<ExecMsg, E> = decode(Msg { name: "cfa", body: Obj { keys: ["p"], vals: [num(v[1])] } });
        assert!(matches!(&with, Ok(ExecMsg::Cfa { c, p }) if *c == v[0] && *p == v[1]));
        assert!(matches!(&without, Ok(ExecMsg::Cfa { c, p }) if *c == 0 && *p == v[1]), "the default makes the field optional on the wire");
        kani::cover!(true);
        core::mem::forget((with, without));
    }

    /// Two separate attributes with the same path on one argument (`#[serde(default)]` then
    /// `#[serde(rename = "w")]`) both land on the field: it is keyed `w`, optional, and the
    /// parameter's own name is not a key of the message.
    #[kani::proof]
    #[kani::unwind(8)]
    fn field_two_attributes_same_path() {
        let v: [u64; 2] = kani::any();
        let with: Result<ExecMsg, E> = decode(Msg { name: "dbl", body: Obj { keys: ["w", "p"], vals: [num(v[0]), num(v[1])] } });
        let without: Result<ExecMsg, E> = decode(Msg { name: "dbl", body: Obj { keys: ["p"], vals: [num(v[1])] } });
        let unrenamed: Result<ExecMsg, E> = decode(Msg { name: "dbl", body: Obj { keys: ["t", "p"], vals: [num(v[0]), num(v[1])] } });
        assert!(matches!(&with, Ok(ExecMsg::Dbl { t, p }) if *t == v[0] && *p == v[1]), "the rename reaches the field");
        assert!(matches!(&without, Ok(ExecMsg::Dbl { t, p }) if *t == 0 && *p == v[1]), "the default reaches the field");
        assert!(!matches!(&unrenamed, Ok(ExecMsg::Dbl { t, .. }) if *t == v[0] && v[0] != 0), "the parameter name is not a wire key");
        if let Ok(m) = &with {
            match record(m) {
                Ok(rec) => {
                    assert!(rec.n == 6 && str_eq(rec.ev[0].s, "dbl"));
                    assert!(rec.ev[1].k == K_FIELD && str_eq(rec.ev[1].s, "w"), "serialised under the renamed key");
                    assert!(rec.ev[3].k == K_FIELD && str_eq(rec.ev[3].s, "p"));
                }
                Err(_) => assert!(false),
            }
        }
        kani::cover!(true);
        core::mem::forget((with, without, unrenamed));
    }

    // @PLAYBACK h@
}
