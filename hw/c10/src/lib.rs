//! C10 — remote helpers build messages the target contract accepts and routes identically.
//!
//! Compiled against the façade with `intercept_json`: `sylvia::cw_std::to_json_binary` records the
//! serde events of the value the generated helper encodes (the message body) instead of writing JSON
//! text, so "the body the helper builds is the message {method: {args}}" is decided for ALL argument
//! values against the same wire-shape oracle as C01; that the target's entry point routes that name
//! is C03 (published list == accepted names) and is re-asserted here on the generated lists.
#![allow(clippy::all)]
#![allow(dead_code, unused_imports, unused_mut, static_mut_refs, deprecated)]

#[path = "../../corpus/basic.rs"]
pub mod basic;

#[path = "../../corpus/names.rs"]
pub mod names;

#[cfg(kani)]
#[path = "../../corpus/shape_h.rs"]
pub mod shape_h;

#[cfg(kani)]
mod h {
    use crate::basic::ct::sv::{self as ct, CtInstantiateBuilder, Executor as CtExecutor};
    use crate::basic::ct::Ct;
    use crate::basic::ifa::sv::Executor as IfaExecutor;
    use crate::basic::ifa::Ifa;
    use crate::basic::ifb::sv::Executor as IfbExecutor;
    use crate::basic::ifb::Ifb;
    use crate::basic::CtErr;
    use crate::names::nm::sv::Executor as NmExecutor;
    use crate::shape_h::{events_ok, HSpec};
    use support::env::one_char;
    use support::stubs::{bt_disabled, fmt_stub};
    use support::sym::{bytes_eq, str_eq};
    use sylvia::builder::instantiate::InstantiateBuilder;
    use sylvia::cw_std::{Addr, Binary, Coin, Uint128, WasmMsg, ENCODED, ENCODE_CALLS, MARKER};
    use sylvia::types::{ExecutorBuilder, ReadyExecutorBuilderState, Remote};

    const AB: &[(&str, u8)] = &[("a", 32), ("b", 32)];
    const H_PING: HSpec = HSpec { name: "ping", args: &[] };
    const H_FOO_BAR: HSpec = HSpec { name: "foo_bar", args: AB };
    const H_BAZ_QUX: HSpec = HSpec { name: "baz_qux", args: AB };
    const H_FOO1: HSpec = HSpec { name: "foo1", args: &[("x", 64)] };
    const H_TICK: HSpec = HSpec { name: "tick", args: &[("n", 64)] };
    const H_IA_ONE: HSpec = HSpec { name: "ia_one", args: AB };
    const H_IA_TWO: HSpec = HSpec { name: "ia_two", args: AB };
    const H_IB_X: HSpec = HSpec { name: "ib_x", args: &[("flag", 1)] };
    const H_INST: HSpec = HSpec { name: "", args: AB };

    fn any_addr() -> (u8, Addr) {
        let c: u8 = kani::any();
        kani::assume(c < 128);
        (c, Addr::unchecked(one_char(c)))
    }
    fn any_funds() -> (Option<u128>, Vec<Coin>) {
        let a: Option<u128> = if kani::any() { Some(kani::any()) } else { None };
        let v = match a {
            Some(x) => vec![Coin { denom: String::new(), amount: Uint128::new(x) }],
            None => Vec::new(),
        };
        (a, v)
    }
    fn funds_eq(f: &[Coin], a: Option<u128>) -> bool {
        match a {
            Some(x) => f.len() == 1 && f[0].amount.u128() == x && f[0].denom.is_empty(),
            None => f.is_empty(),
        }
    }
    fn reset() {
        unsafe {
            ENCODED = None;
            ENCODE_CALLS = 0;
        }
    }
    /// the value the helper encoded is the message `h` with arguments `vals`
    fn encoded_is(h: &HSpec, vals: [u64; 3], flat: bool) -> bool {
        unsafe {
            match &ENCODED {
                Some(r) => ENCODE_CALLS == 1 && events_ok(r, h, &vals, flat),
                None => false,
            }
        }
    }

    /// What an Executor helper must have produced.
    fn check_ready(ready: Result<ExecutorBuilder<ReadyExecutorBuilderState>, sylvia::cw_std::StdError>, h: &HSpec, vals: [u64; 3], c: u8, amount: Option<u128>) {
        match ready {
            Ok(rb) => {
                assert!(encoded_is(h, vals, false), "body = the message of that same method with equal arguments");
                match rb.build() {
                    WasmMsg::Execute { contract_addr, msg, funds } => {
                        assert!(str_eq(&contract_addr, &one_char(c)), "addressed to the handle's address");
                        assert!(funds_eq(&funds, amount), "carrying the funds set on the builder");
                        assert!(bytes_eq(msg.as_slice(), &[MARKER]), "body = what the helper encoded");
                        core::mem::forget((contract_addr, msg, funds));
                    }
                    _ => assert!(false, "an execute message"),
                }
            }
            Err(e) => {
                core::mem::forget(e);
                assert!(false, "encoding cannot fail");
            }
        }
    }

    /// One harness per Executor helper (instances: owned handle without funds / borrowed handle with
    /// one coin): through `Remote::executor()` and
    /// `with_funds`: execute message addressed to the handle's address, carrying the funds, body = the
    /// message of that method with equal arguments (all argument values symbolic).
    macro_rules! exec_helper {
        ($name:ident, $borrowed:literal, $remote_ty:ty, |$eb:ident, $a:ident, $b:ident, $x:ident| $call:expr, $h:expr, $vals:expr) => {
            #[kani::proof]
            #[kani::unwind(9)]
            #[kani::stub(std::backtrace::Backtrace::capture, bt_disabled)]
            #[kani::stub(alloc::fmt::format, fmt_stub)]
            #[kani::stub(<sylvia::cw_std::Addr as core::fmt::Display>::fmt, support::stubs::addr_fmt_stub)]
            fn $name() {
                // The address byte is CONCRETE here: reading back the CONTENT of a symbolic address string
                // after it went through the helper and `build()` does not finish (measured: > 300 s, while
                // its length, the funds and the body check in 5 s).  Symbolic addresses are decided on the
                // two halves of the path instead: `handle_to_builder` (Remote -> builder keeps the address)
                // and `runtime_executor_admin` (Ready builder -> message keeps the address).
                let c = b'k';
                let addr = Addr::unchecked(one_char(c));
                // the NUMBER of coins is concrete per instance (the helper clones the funds vector: a
                // vector of symbolic length does not get through CBMC); the amount is symbolic
                let (amount, funds): (Option<u128>, Vec<Coin>) = if $borrowed {
                    let x: u128 = kani::any();
                    (Some(x), vec![Coin { denom: String::new(), amount: Uint128::new(x) }])
                } else {
                    (None, Vec::new())
                };
                let $a: u32 = kani::any();
                let $b: u32 = kani::any();
                let $x: u64 = kani::any();
                // owned / borrowed is concrete per harness instance (a symbolic choice makes the Cow a
                // symbolic pointer and the SAT instance does not finish)
                reset();
                let remote: Remote<'_, $remote_ty> = if $borrowed { Remote::borrowed(&addr) } else { Remote::new(addr.clone()) };
                let $eb = remote.executor().with_funds(funds);
                let ready = $call;
                check_ready(ready, &$h, $vals, c, amount);
                kani::cover!(true, "helper called");
                core::mem::forget(remote);
                core::mem::forget(addr);
            }
        };
    }
    exec_helper!(exec_ct_ping, false, Ct, |eb, a, b, x| eb.ping(), H_PING, [0u64; 3]);
    exec_helper!(exec_ct_foo_bar, true, Ct, |eb, a, b, x| eb.foo_bar(a, b), H_FOO_BAR, [a as u64, b as u64, 0]);
    exec_helper!(exec_ct_baz_qux, false, Ct, |eb, a, b, x| eb.baz_qux(a, b), H_BAZ_QUX, [a as u64, b as u64, 0]);
    exec_helper!(exec_ct_foo1, false, Ct, |eb, a, b, x| eb.foo_1(x), H_FOO1, [x, 0, 0]);
    exec_helper!(exec_ct_tick, false, Ct, |eb, a, b, x| CtExecutor::tick(eb, x), H_TICK, [x, 0, 0]);
    exec_helper!(exec_dyn_ia_one, false, dyn Ifa<Error = CtErr>, |eb, a, b, x| eb.ia_one(a, b), H_IA_ONE, [a as u64, b as u64, 0]);
    exec_helper!(exec_dyn_ia_two, false, dyn Ifa<Error = CtErr>, |eb, a, b, x| eb.ia_two(a, b), H_IA_TWO, [a as u64, b as u64, 0]);
    exec_helper!(exec_dyn_ib_x, true, dyn Ifb<Error = CtErr>, |eb, a, b, x| eb.ib_x(a & 1 == 1), H_IB_X, [(a & 1) as u64, 0, 0]);
    exec_helper!(exec_ct_as_ifa, true, Ct, |eb, a, b, x| IfaExecutor::ia_two(eb, a, b), H_IA_TWO, [a as u64, b as u64, 0]);
    exec_helper!(exec_ct_as_ifb, true, Ct, |eb, a, b, x| IfbExecutor::ib_x(eb, a & 1 == 1), H_IB_X, [(a & 1) as u64, 0, 0]);

    // argument-less helpers of corpus `names`: identifiers with digits / unusual underscores.  The helper's
    // own name follows another casing rule than the wire name; the BODY must be the message of that
    // method (wire names as published: a1_b2, x1, r2_d2_x9, swap_a_b; helpers a_1_b_2, x_1, r_2_d_2_x_9, swap_ab), so that the target routes it.
    const H_A1B2: HSpec = HSpec { name: "a1_b2", args: &[] };
    const H_X1: HSpec = HSpec { name: "x1", args: &[] };
    const H_R2D2: HSpec = HSpec { name: "r2_d2_x9", args: &[] };
    const H_SWAP: HSpec = HSpec { name: "swap_a_b", args: &[] };
    exec_helper!(exec_nm_a1b2, false, crate::names::nm::Nm, |eb, a, b, x| NmExecutor::a_1_b_2(eb), H_A1B2, [0u64; 3]);
    exec_helper!(exec_nm_x1, true, crate::names::nm::Nm, |eb, a, b, x| NmExecutor::x_1(eb), H_X1, [0u64; 3]);
    exec_helper!(exec_nm_r2d2, false, crate::names::nm::Nm, |eb, a, b, x| NmExecutor::r_2_d_2_x_9(eb), H_R2D2, [0u64; 3]);
    exec_helper!(exec_nm_swap, false, crate::names::nm::Nm, |eb, a, b, x| NmExecutor::swap_ab(eb), H_SWAP, [0u64; 3]);

    /// Remote -> ExecutorBuilder keeps the (symbolic) address and starts without funds; owned and
    /// borrowed handles.
    #[kani::proof]
    #[kani::unwind(9)]
    #[kani::stub(std::backtrace::Backtrace::capture, bt_disabled)]
    #[kani::stub(alloc::fmt::format, fmt_stub)]
    fn handle_to_builder() {
        let (c, addr) = any_addr();
        let x: u128 = kani::any();
        let r1: Remote<'_, Ct> = Remote::new(addr.clone());
        let r2: Remote<'_, dyn Ifa<Error = CtErr>> = Remote::borrowed(&addr);
        let e1 = r1.executor();
        let e2 = r2.executor().with_funds(vec![Coin { denom: String::new(), amount: Uint128::new(x) }]);
        assert!(str_eq(e1.contract(), &one_char(c)) && e1.funds().is_empty(), "owned handle");
        assert!(str_eq(e2.contract(), &one_char(c)), "borrowed handle");
        assert!(e2.funds().len() == 1 && e2.funds()[0].amount.u128() == x, "with_funds");
        let a1: &Addr = r1.as_ref();
        assert!(str_eq(a1.as_str(), &one_char(c)));
        kani::cover!(true);
        core::mem::forget((e1, e2));
        core::mem::forget(r1);
        core::mem::forget(r2);
        core::mem::forget(addr);
    }

    /// The names the helpers encode are routable by the target: they are in the published lists.
    #[kani::proof]
    #[kani::unwind(9)]
    fn exec_names_routable() {
        use crate::basic::ifa::sv as ifa;
        use crate::basic::ifb::sv as ifb;
        fn has(t: &[&str], n: &str) -> bool {
            let mut i = 0;
            while i < t.len() {
                if str_eq(t[i], n) {
                    return true;
                }
                i += 1;
            }
            false
        }
        let t = ct::execute_messages();
        assert!(has(&t, "ping") && has(&t, "foo_bar") && has(&t, "baz_qux") && has(&t, "foo1") && has(&t, "tick"));
        assert!(has(&ifa::execute_messages(), "ia_one") && has(&ifa::execute_messages(), "ia_two"));
        assert!(has(&ifb::execute_messages(), "ib_x"));
        kani::cover!(true);
    }

    /// Runtime builders, driven directly: ExecutorBuilder state machine and admin helpers.
    #[kani::proof]
    #[kani::unwind(6)]
    #[kani::stub(std::backtrace::Backtrace::capture, bt_disabled)]
    #[kani::stub(alloc::fmt::format, fmt_stub)]
    fn runtime_executor_admin() {
        let (c, addr) = any_addr();
        let (amount, funds) = any_funds();
        let body: [u8; 2] = kani::any();
        let adm: u8 = kani::any();
        kani::assume(adm < 128);
        let sel: u8 = kani::any();
        kani::assume(sel < 3);
        let remote = Remote::<Ct>::new(addr.clone());
        match sel {
            0 => {
                let rb = ExecutorBuilder::<ReadyExecutorBuilderState>::new(one_char(c), funds, Binary::from(body.to_vec()));
                match rb.build() {
                    WasmMsg::Execute { contract_addr, msg, funds } => {
                        assert!(str_eq(&contract_addr, &one_char(c)) && funds_eq(&funds, amount) && bytes_eq(msg.as_slice(), &body));
                    }
                    _ => assert!(false),
                }
            }
            1 => match remote.update_admin(&one_char(adm)) {
                WasmMsg::UpdateAdmin { contract_addr, admin } => {
                    assert!(str_eq(&contract_addr, &one_char(c)), "admin helper addresses the handle's contract");
                    assert!(str_eq(&admin, &one_char(adm)));
                }
                _ => assert!(false),
            },
            _ => match remote.clear_admin() {
                WasmMsg::ClearAdmin { contract_addr } => assert!(str_eq(&contract_addr, &one_char(c))),
                _ => assert!(false),
            },
        }
        let eb = remote.executor();
        assert!(eb.funds().is_empty() && str_eq(eb.contract(), &one_char(c)), "fresh builder: no funds, handle's address");
        kani::cover!(sel == 1);
        kani::cover!(sel == 0 && amount.is_some());
    }

    /// InstantiateBuilder (runtime) and the generated `<Contract>InstantiateBuilder` helper.
    #[kani::proof]
    #[kani::unwind(9)]
    #[kani::stub(std::backtrace::Backtrace::capture, bt_disabled)]
    #[kani::stub(alloc::fmt::format, fmt_stub)]
    fn instantiate_builder() {
        let code_id: u64 = kani::any();
        let a: u32 = kani::any();
        let b: u32 = kani::any();
        let (amount, funds) = any_funds();
        let has_label: bool = kani::any();
        let has_admin: bool = kani::any();
        let lb: u8 = kani::any();
        let ad: u8 = kani::any();
        kani::assume(lb < 128 && ad < 128);
        reset();
        // generated helper: encodes InstantiateMsg::new(a, b)
        let ib = match <InstantiateBuilder as CtInstantiateBuilder>::ct(code_id, a, b) {
            Ok(x) => x,
            Err(_) => {
                assert!(false, "encoding cannot fail");
                return;
            }
        };
        assert!(encoded_is(&H_INST, [a as u64, b as u64, 0], true), "arguments encoded as the flat instantiate message");
        let mut ib = ib.with_funds(funds);
        if has_label {
            ib = ib.with_label(one_char(lb));
        }
        if has_admin {
            ib = ib.with_admin(one_char(ad));
        }
        match ib.build() {
            WasmMsg::Instantiate { admin, code_id: cid, msg, funds, label } => {
                assert!(cid == code_id, "code id");
                assert!(bytes_eq(msg.as_slice(), &[MARKER]), "the encoded arguments");
                assert!(funds_eq(&funds, amount), "funds");
                match &admin {
                    Some(x) => assert!(has_admin && str_eq(x, &one_char(ad)), "admin"),
                    None => assert!(!has_admin, "admin"),
                }
                if has_label {
                    assert!(str_eq(&label, &one_char(lb)), "label");
                } else {
                    assert!(label.is_empty(), "label empty when unset");
                }
            }
            _ => assert!(false, "an instantiate message"),
        }
        kani::cover!(has_label && has_admin && amount.is_some());
        kani::cover!(!has_label && !has_admin);
    }

    /// `build2`: the same plus the salt, in the salted form of the instantiate message.
    #[kani::proof]
    #[kani::unwind(9)]
    #[kani::stub(std::backtrace::Backtrace::capture, bt_disabled)]
    #[kani::stub(alloc::fmt::format, fmt_stub)]
    fn instantiate_builder_salted() {
        let code_id: u64 = kani::any();
        let body: u8 = kani::any();
        let salt: [u8; 2] = kani::any();
        let empty_salt: bool = kani::any();
        let has_label: bool = kani::any();
        let lb: u8 = kani::any();
        kani::assume(lb < 128);
        let mut ib = InstantiateBuilder::new(Binary::from(vec![body]), code_id);
        if has_label {
            ib = ib.with_label(one_char(lb));
        }
        let built = if empty_salt { ib.build2(Binary::default()) } else { ib.build2(Binary::from(salt.to_vec())) };
        match built {
            WasmMsg::Instantiate2 { admin, code_id: cid, label, msg, funds, salt: s2 } => {
                assert!(cid == code_id && admin.is_none() && funds.is_empty());
                assert!(bytes_eq(msg.as_slice(), &[body]), "arguments");
                if empty_salt {
                    assert!(s2.as_slice().is_empty(), "an empty salt is still the salted form");
                } else {
                    assert!(bytes_eq(s2.as_slice(), &salt), "salt");
                }
                if has_label {
                    assert!(str_eq(&label, &one_char(lb)));
                } else {
                    assert!(label.is_empty(), "label empty when unset");
                }
            }
            _ => assert!(false, "the salted form"),
        }
        kani::cover!(has_label && empty_salt);
        kani::cover!(!has_label && !empty_salt);
    }

    // @PLAYBACK h@
}
