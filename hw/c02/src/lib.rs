//! C02 — dispatch runs exactly the annotated handler with the sent arguments.
#![allow(clippy::all)]
#![allow(dead_code, unused_imports, unused_mut, static_mut_refs)]

#[path = "../../corpus/basic.rs"]
pub mod basic;

#[path = "../../corpus/wide.rs"]
pub mod wide;

#[path = "../../corpus/qret.rs"]
pub mod qret;

#[cfg(kani)]
mod h {
    use crate::basic::ct::sv::{
        ContractExecMsg, ContractQueryMsg, ContractSudoMsg, ExecMsg, InstantiateMsg, MigrateMsg,
        QueryMsg, SudoMsg,
    };
    use crate::basic::ct::Ct;
    use crate::basic::ifa::sv::{IfaExecMsg, IfaQueryMsg, IfaSudoMsg};
    use crate::basic::ifb::sv::{IfbExecMsg, IfbQueryMsg, IfbSudoMsg};
    use crate::basic::CtErr;
    use support::echo::{self, Ctl, MARK_KEY};
    use support::env::{mk_env, mk_info, World};
    use support::stubs::{bt_disabled, fmt_stub};
    use sylvia::cw_std::{Binary, Empty, Response};

    /// Symbolic call context.
    struct In {
        s: u8,
        a: u8,
        q: u8,
        height: u64,
        time: u64,
        tx: Option<u32>,
        c0: u8,
        sender0: u8,
        coin: Option<u128>,
        ctl: Ctl,
    }

    fn any_in() -> In {
        let c0: u8 = kani::any();
        let sender0: u8 = kani::any();
        kani::assume(c0 < 128 && sender0 < 128);
        let digit: u8 = kani::any();
        kani::assume(digit <= 9);
        let i = In {
            s: kani::any(),
            a: kani::any(),
            q: kani::any(),
            height: kani::any(),
            time: kani::any(),
            tx: if kani::any() { Some(kani::any()) } else { None },
            c0,
            sender0,
            coin: if kani::any() { Some(kani::any()) } else { None },
            ctl: Ctl {
                fail: kani::any(),
                code: kani::any(),
                data: kani::any(),
                digit,
            },
        };
        // tags are non-zero so that "seen" differs from the zeroed log
        kani::assume(i.s != 0 && i.a != 0 && i.q != 0);
        echo::reset();
        echo::set_ctl(i.ctl);
        i
    }

    /// Exactly one handler ran, it is `id`, with `args`, and it saw the caller's context.
    fn check_call(i: &In, w: &World, id: u32, args: [u64; 4], with_info: bool, mutating: bool) {
        let l = echo::log();
        assert!(l.count == 1, "exactly one handler invocation");
        assert!(l.id == id, "the handler the variant was generated from");
        assert!(l.args[0] == args[0] && l.args[1] == args[1] && l.args[2] == args[2] && l.args[3] == args[3],
            "every field value reaches the parameter of the same name");
        assert!(l.seen.storage == i.s, "caller's storage");
        assert!(w.api.seen.get() == i.a, "caller's api");
        assert!(w.querier.seen.get() == i.q, "caller's querier");
        assert!(l.seen.height == i.height && l.seen.time == i.time, "env.block");
        assert!(l.seen.has_tx == i.tx.is_some(), "env.transaction presence");
        if let Some(ix) = i.tx {
            assert!(l.seen.tx_index == ix, "env.transaction.index");
        }
        assert!(l.seen.contract0 == i.c0, "env.contract.address");
        if with_info {
            assert!(l.seen.sender0 == i.sender0 && l.seen.sender_len == 1, "info.sender");
            assert!(l.seen.nfunds == if i.coin.is_some() { 1 } else { 0 }, "info.funds length");
            if let Some(c) = i.coin {
                assert!(l.seen.amount0 == c, "info.funds[0].amount");
            }
        }
        if mutating {
            assert!(w.storage.writes == 1 && w.storage.last_key == MARK_KEY && w.storage.slot == (id & 0xff) as u8,
                "handler's write landed in the caller's storage");
        } else {
            assert!(w.storage.writes == 0);
        }
    }

    /// The caller gets the handler's own outcome.
    fn check_resp(i: &In, r: &Result<Response<Empty>, CtErr>, conv: bool) {
        match r {
            Ok(resp) => {
                assert!(!i.ctl.fail, "Ok only when the handler returned Ok");
                let (has, d0, len) = echo::resp_data(resp);
                assert!(has && len == 1 && d0 == i.ctl.data, "response data untouched");
                assert!(resp.messages.is_empty() && resp.attributes.is_empty() && resp.events.is_empty(),
                    "nothing added to the response");
                kani::cover!(true, "Ok outcome reachable");
            }
            Err(CtErr::Mine(c)) => {
                assert!(i.ctl.fail && !conv && *c == i.ctl.code, "handler's error, as is");
            }
            Err(CtErr::Conv(c)) => {
                assert!(i.ctl.fail && conv && *c == i.ctl.code, "handler's error converted into the declared type");
            }
            Err(CtErr::Std(_)) => assert!(false, "no StdError is produced by any echo handler"),
        }
    }

    /// Query: the JSON encoding of the returned value (`{"v":D}`).
    fn check_qresp(i: &In, r: &Result<Binary, CtErr>, conv: bool) {
        match r {
            Ok(bin) => {
                assert!(!i.ctl.fail);
                let b = bin.as_slice();
                assert!(b.len() == 7, "length of {{\"v\":D}}");
                assert!(b[0] == b'{' && b[1] == b'"' && b[2] == b'v' && b[3] == b'"' && b[4] == b':'
                    && b[5] == b'0' + i.ctl.digit && b[6] == b'}', "JSON encoding of the returned value");
                kani::cover!(true, "Ok outcome reachable");
            }
            Err(CtErr::Mine(c)) => {
                assert!(i.ctl.fail && !conv && *c == i.ctl.code);
            }
            Err(CtErr::Conv(c)) => {
                assert!(i.ctl.fail && conv && *c == i.ctl.code);
            }
            Err(CtErr::Std(_)) => assert!(false, "encoding a Digit cannot fail"),
        }
    }

    macro_rules! exec_like {
        ($name:ident, $unw:literal, $msgty:ty, $nsel:literal, |$sel:ident, $a:ident, $b:ident, $x:ident| $build:expr, $table:expr, info) => {
            #[kani::proof]
            #[kani::unwind($unw)]
            #[kani::stub(std::backtrace::Backtrace::capture, bt_disabled)]
            #[kani::stub(alloc::fmt::format, fmt_stub)]
            fn $name() {
                let i = any_in();
                let $sel: u8 = kani::any();
                kani::assume($sel < $nsel);
                let $a: u32 = kani::any();
                let $b: u32 = kani::any();
                let $x: u64 = kani::any();
                let msg: $msgty = $build;
                let (id, args, conv): (u32, [u64; 4], bool) = $table;
                let mut w = World::new(i.s, i.a, i.q);
                let r = msg.dispatch(&Ct::new(), (w.deps_mut(), mk_env(i.height, i.time, i.tx, i.c0), mk_info(i.sender0, i.coin)));
                check_call(&i, &w, id, args, true, true);
                check_resp(&i, &r, conv);
                kani::cover!(r.is_err(), "Err outcome reachable");
                core::mem::forget(r);
            }
        };
        ($name:ident, $unw:literal, $msgty:ty, $nsel:literal, |$sel:ident, $a:ident, $b:ident, $x:ident| $build:expr, $table:expr, noinfo) => {
            #[kani::proof]
            #[kani::unwind($unw)]
            #[kani::stub(std::backtrace::Backtrace::capture, bt_disabled)]
            #[kani::stub(alloc::fmt::format, fmt_stub)]
            fn $name() {
                let i = any_in();
                let $sel: u8 = kani::any();
                kani::assume($sel < $nsel);
                let $a: u32 = kani::any();
                let $b: u32 = kani::any();
                let $x: u64 = kani::any();
                let msg: $msgty = $build;
                let (id, args, conv): (u32, [u64; 4], bool) = $table;
                let mut w = World::new(i.s, i.a, i.q);
                let r = msg.dispatch(&Ct::new(), (w.deps_mut(), mk_env(i.height, i.time, i.tx, i.c0)));
                check_call(&i, &w, id, args, false, true);
                check_resp(&i, &r, conv);
                kani::cover!(r.is_err(), "Err outcome reachable");
                core::mem::forget(r);
            }
        };
        ($name:ident, $unw:literal, $msgty:ty, $nsel:literal, |$sel:ident, $a:ident, $b:ident, $x:ident| $build:expr, $table:expr, query) => {
            #[kani::proof]
            #[kani::unwind($unw)]
            #[kani::stub(std::backtrace::Backtrace::capture, bt_disabled)]
            #[kani::stub(alloc::fmt::format, fmt_stub)]
            fn $name() {
                let i = any_in();
                let $sel: u8 = kani::any();
                kani::assume($sel < $nsel);
                let $a: u32 = kani::any();
                let $b: u32 = kani::any();
                let $x: u64 = kani::any();
                let msg: $msgty = $build;
                let (id, args, conv): (u32, [u64; 4], bool) = $table;
                let w = World::new(i.s, i.a, i.q);
                let r = msg.dispatch(&Ct::new(), (w.deps(), mk_env(i.height, i.time, i.tx, i.c0)));
                check_call(&i, &w, id, args, false, false);
                check_qresp(&i, &r, conv);
                kani::cover!(r.is_err(), "Err outcome reachable");
                core::mem::forget(r);
            }
        };
    }

    // ---- the contract's own messages -------------------------------------------------------
    exec_like!(ct_exec, 10, ExecMsg, 5, |sel, a, b, x| match sel {
        0 => ExecMsg::Ping {},
        1 => ExecMsg::FooBar { a, b },
        2 => ExecMsg::BazQux { a, b },
        3 => ExecMsg::Foo1 { x },
        _ => ExecMsg::Tick { n: x },
    }, match sel {
        0 => (110, [0; 4], false),
        1 => (111, [a as u64, b as u64, 0, 0], true),
        2 => (112, [a as u64, b as u64, 0, 0], false),
        3 => (113, [x, 0, 0, 0], true),
        _ => (114, [x, 0, 0, 0], false),
    }, info);

    exec_like!(ct_sudo, 10, SudoMsg, 2, |sel, a, b, x| match sel {
        0 => SudoMsg::Tack { n: x },
        _ => SudoMsg::Tock { n: x },
    }, match sel {
        0 => (130, [x, 0, 0, 0], false),
        _ => (131, [x, 0, 0, 0], true),
    }, noinfo);

    exec_like!(ct_query, 10, QueryMsg, 2, |sel, a, b, x| match sel {
        0 => QueryMsg::Get {},
        _ => QueryMsg::QTwo { a, b },
    }, match sel {
        0 => (120, [0; 4], false),
        _ => (121, [a as u64, b as u64, 0, 0], true),
    }, query);

    exec_like!(ct_instantiate, 10, InstantiateMsg, 1, |sel, a, b, x| InstantiateMsg { a, b },
        (100, [a as u64, b as u64, 0, 0], true), info);

    exec_like!(ct_migrate, 10, MigrateMsg, 1, |sel, a, b, x| MigrateMsg { a, b },
        (101, [a as u64, b as u64, 0, 0], false), noinfo);

    // ---- contract-level messages: every part ----------------------------------------------
    exec_like!(wrap_exec, 10, ContractExecMsg, 8, |sel, a, b, x| match sel {
        0 => ContractExecMsg::Ct(ExecMsg::Ping {}),
        1 => ContractExecMsg::Ct(ExecMsg::FooBar { a, b }),
        2 => ContractExecMsg::Ct(ExecMsg::BazQux { a, b }),
        3 => ContractExecMsg::Ct(ExecMsg::Foo1 { x }),
        4 => ContractExecMsg::Ct(ExecMsg::Tick { n: x }),
        5 => ContractExecMsg::Ifa(IfaExecMsg::IaOne { a, b }),
        6 => ContractExecMsg::Ifa(IfaExecMsg::IaTwo { a, b }),
        _ => ContractExecMsg::Ifb(IfbExecMsg::IbX { flag: a & 1 == 1 }),
    }, match sel {
        0 => (110, [0; 4], false),
        1 => (111, [a as u64, b as u64, 0, 0], true),
        2 => (112, [a as u64, b as u64, 0, 0], false),
        3 => (113, [x, 0, 0, 0], true),
        4 => (114, [x, 0, 0, 0], false),
        5 => (210, [a as u64, b as u64, 0, 0], false),
        6 => (211, [a as u64, b as u64, 0, 0], false),
        _ => (310, [(a & 1) as u64, 0, 0, 0], false),
    }, info);

    exec_like!(wrap_sudo, 10, ContractSudoMsg, 4, |sel, a, b, x| match sel {
        0 => ContractSudoMsg::Ct(SudoMsg::Tack { n: x }),
        1 => ContractSudoMsg::Ct(SudoMsg::Tock { n: x }),
        2 => ContractSudoMsg::Ifa(IfaSudoMsg::Tick { n: x }),
        _ => ContractSudoMsg::Ifb(IfbSudoMsg::IbS { n: x }),
    }, match sel {
        0 => (130, [x, 0, 0, 0], false),
        1 => (131, [x, 0, 0, 0], true),
        2 => (230, [x, 0, 0, 0], false),
        _ => (330, [x, 0, 0, 0], false),
    }, noinfo);

    exec_like!(wrap_query, 10, ContractQueryMsg, 5, |sel, a, b, x| match sel {
        0 => ContractQueryMsg::Ct(QueryMsg::Get {}),
        1 => ContractQueryMsg::Ct(QueryMsg::QTwo { a, b }),
        2 => ContractQueryMsg::Ifa(IfaQueryMsg::IaQ { k: a as u8 }),
        3 => ContractQueryMsg::Ifb(IfbQueryMsg::IbQ22 {}),
        _ => ContractQueryMsg::Ifb(IfbQueryMsg::Tick { n: x }),
    }, match sel {
        0 => (120, [0; 4], false),
        1 => (121, [a as u64, b as u64, 0, 0], true),
        2 => (220, [(a as u8) as u64, 0, 0, 0], false),
        3 => (320, [0; 4], false),
        _ => (321, [x, 0, 0, 0], false),
    }, query);

    // @PLAYBACK h@
}

#[cfg(kani)]
mod hw {
    use crate::wide::ifw::sv::IfwExecMsg;
    use crate::wide::wd::sv::{ContractExecMsg, ExecMsg, InstantiateMsg, QueryMsg, SudoMsg};
    use crate::wide::wd::Wd;
    use crate::wide::WIDE;
    use support::call::any_in;
    use support::stubs::{bt_disabled, fmt_stub};

    fn seen(id: u32, v: &[u64; 11], mask: u64) {
        let (got_id, got) = unsafe { WIDE };
        assert!(got_id == id, "the handler the variant was generated from");
        let mut k = 0;
        while k < 11 {
            assert!(got[k] == v[k] & mask, "every field value reaches the parameter of the same name (11 same-typed parameters)");
            k += 1;
        }
    }

    /// Handlers with eleven same-typed parameters: positions 10 and 11 have two-digit indices.
    #[kani::proof]
    #[kani::unwind(13)]
    #[kani::stub(std::backtrace::Backtrace::capture, bt_disabled)]
    #[kani::stub(alloc::fmt::format, fmt_stub)]
    fn wide_dispatch() {
        let i = any_in();
        let v: [u64; 11] = kani::any();
        let sel: u8 = kani::any();
        kani::assume(sel < 5);
        let mut w = i.world();
        match sel {
            0 => {
                let r = ExecMsg::WideE { p1: v[0], p2: v[1], p3: v[2], p4: v[3], p5: v[4], p6: v[5], p7: v[6], p8: v[7], p9: v[8], p10: v[9], p11: v[10] }.dispatch(&Wd::new(), (w.deps_mut(), i.env(), i.info()));
                seen(1000, &v, u64::MAX);
                core::mem::forget(r);
            }
            1 => {
                let r = QueryMsg::WideQ { p1: v[0] as u32, p2: v[1] as u32, p3: v[2] as u32, p4: v[3] as u32, p5: v[4] as u32, p6: v[5] as u32, p7: v[6] as u32, p8: v[7] as u32, p9: v[8] as u32, p10: v[9] as u32, p11: v[10] as u32 }.dispatch(&Wd::new(), (w.deps(), i.env()));
                seen(1001, &v, u32::MAX as u64);
                core::mem::forget(r);
            }
            2 => {
                let r = SudoMsg::WideS { p1: v[0], p2: v[1], p3: v[2], p4: v[3], p5: v[4], p6: v[5], p7: v[6], p8: v[7], p9: v[8], p10: v[9], p11: v[10] }.dispatch(&Wd::new(), (w.deps_mut(), i.env()));
                seen(1002, &v, u64::MAX);
                core::mem::forget(r);
            }
            3 => {
                let r = InstantiateMsg { p1: v[0], p2: v[1], p3: v[2], p4: v[3], p5: v[4], p6: v[5], p7: v[6], p8: v[7], p9: v[8], p10: v[9], p11: v[10] }.dispatch(&Wd::new(), (w.deps_mut(), i.env(), i.info()));
                seen(1003, &v, u64::MAX);
                core::mem::forget(r);
            }
            _ => {
                let r = ContractExecMsg::Ifw(IfwExecMsg::Iw { p1: v[0], p2: v[1], p3: v[2], p4: v[3], p5: v[4], p6: v[5], p7: v[6], p8: v[7], p9: v[8], p10: v[9], p11: v[10] }).dispatch(&Wd::new(), (w.deps_mut(), i.env(), i.info()));
                seen(1010, &v, u64::MAX);
                core::mem::forget(r);
            }
        }
        kani::cover!(sel == 1 && v[1] != v[9], "query with different 2nd and 10th values");
        kani::cover!(sel == 4, "interface handler");
    }

    // @PLAYBACK hw@
}

#[cfg(kani)]
mod hq {
    use crate::qret::ifq::sv::IfqQueryMsg;
    use crate::qret::qr::sv::{ContractQueryMsg, QueryMsg};
    use crate::qret::qr::Qr;
    use support::call::{any_in, check_call};
    use support::stubs::{bt_disabled, fmt_stub};

    /// Queries returning `Binary` / `bool`: the caller gets the JSON ENCODING of the returned value --
    /// for a Binary the JSON *string* of its base64 form (the base64 text is a stub: one letter derived
    /// from the byte), for a bool `true` / `false` -- from the contract's own message, through the
    /// contract-level wrapper and from the interface part.
    macro_rules! qre {
        ($name:ident, $sel:literal) => {
            #[kani::proof]
            #[kani::unwind(10)]
            #[kani::stub(std::backtrace::Backtrace::capture, bt_disabled)]
            #[kani::stub(alloc::fmt::format, fmt_stub)]
            #[kani::stub(sylvia::cw_std::Binary::to_base64, support::stubs::b64_stub)]
            fn $name() {
                let i = any_in();
                let b: u8 = kani::any();
                let w = i.world();
                let (r, id) = match $sel {
                    0 => (QueryMsg::RawBin { b }.dispatch(&Qr::new(), (w.deps(), i.env())), 1100),
                    1 => (QueryMsg::Flag { b }.dispatch(&Qr::new(), (w.deps(), i.env())), 1101),
                    2 => (ContractQueryMsg::Qr(QueryMsg::RawBin { b }).dispatch(&Qr::new(), (w.deps(), i.env())), 1100),
                    _ => (ContractQueryMsg::Ifq(IfqQueryMsg::IqBin { b }).dispatch(&Qr::new(), (w.deps(), i.env())), 1110),
                };
                check_call(&i, &w, id, [b as u64, 0, 0, 0], false, false);
                match &r {
                    Ok(bin) => {
                        let o = bin.as_slice();
                        if $sel == 1 {
                            let want: &[u8] = if b & 1 == 1 { b"true" } else { b"false" };
                            assert!(o.len() == want.len(), "JSON encoding of the returned bool");
                            let mut k = 0;
                            while k < want.len() {
                                assert!(o[k] == want[k], "JSON encoding of the returned bool");
                                k += 1;
                            }
                        } else {
                            assert!(o.len() == 3, "a Binary is returned as the JSON string of its base64 form, not as its bytes");
                            assert!(o[0] == b'"' && o[2] == b'"' && o[1] == b'b', "JSON string of the (stubbed) base64 text of the returned byte");
                        }
                    }
                    Err(_) => assert!(false, "these handlers succeed"),
                }
                kani::cover!(true, "reached");
                core::mem::forget(r);
            }
        };
    }
    qre!(qret_bin, 0);
    qre!(qret_bool, 1);
    qre!(qret_bin_wrapped, 2);
    qre!(qret_bin_iface, 3);

    // @PLAYBACK hq@
}

/// The tuple -> context conversions every generated dispatch arm goes through (sylvia/src/ctx.rs),
/// driven on their own: the context holds the caller's deps, env and -- for exec / instantiate --
/// sender and funds UNCHANGED, for 0, 1 and 2 coins with symbolic amounts (zero included).
#[cfg(kani)]
mod hc {
    use support::env::{mk_env, see_deps, see_deps_mut, see_env, see_info, one_char, Seen, World};
    use sylvia::ctx::{ExecCtx, InstantiateCtx, MigrateCtx, QueryCtx, SudoCtx};
    use sylvia::cw_std::{Addr, Coin, Empty, Env, MessageInfo, Uint128};

    struct Cin {
        s: u8,
        a: u8,
        q: u8,
        height: u64,
        time: u64,
        tx: Option<u32>,
        c0: u8,
    }

    fn any_cin() -> Cin {
        let c0: u8 = kani::any();
        kani::assume(c0 < 128);
        let i = Cin { s: kani::any(), a: kani::any(), q: kani::any(), height: kani::any(), time: kani::any(), tx: if kani::any() { Some(kani::any()) } else { None }, c0 };
        kani::assume(i.s != 0 && i.a != 0 && i.q != 0);
        i
    }

    fn check_env_deps(i: &Cin, w: &World, seen: &Seen) {
        assert!(seen.storage == i.s, "caller's storage");
        assert!(w.api.seen.get() == i.a, "caller's api");
        assert!(w.querier.seen.get() == i.q, "caller's querier");
        assert!(seen.height == i.height && seen.time == i.time, "env.block");
        assert!(seen.has_tx == i.tx.is_some(), "env.transaction presence");
        if let Some(ix) = i.tx {
            assert!(seen.tx_index == ix, "env.transaction.index");
        }
        assert!(seen.contract0 == i.c0, "env.contract.address");
    }

    fn info_n(sender0: u8, n: usize, amt: [u128; 2]) -> MessageInfo {
        let mut funds = Vec::with_capacity(2);
        let mut k = 0;
        while k < n {
            funds.push(Coin { denom: String::new(), amount: Uint128::new(amt[k]) });
            k += 1;
        }
        MessageInfo { sender: Addr::unchecked(one_char(sender0)), funds }
    }

    fn check_info(info: &MessageInfo, sender0: u8, n: usize, amt: [u128; 2]) {
        let mut seen = Seen::ZERO;
        see_info(&mut seen, info);
        assert!(seen.sender0 == sender0 && seen.sender_len == 1, "info.sender unchanged");
        assert!(info.funds.len() == n, "info.funds: no coin added or dropped");
        if n >= 1 {
            assert!(info.funds[0].amount.u128() == amt[0] && info.funds[0].denom.is_empty(), "info.funds[0] unchanged");
        }
        if n >= 2 {
            assert!(info.funds[1].amount.u128() == amt[1] && info.funds[1].denom.is_empty(), "info.funds[1] unchanged (order kept)");
        }
    }

    macro_rules! ctx_with_info {
        ($name:ident, $ctx:ident, $n:literal) => {
            #[kani::proof]
            #[kani::unwind(4)]
            fn $name() {
                let i = any_cin();
                let sender0: u8 = kani::any();
                kani::assume(sender0 < 128);
                let amt: [u128; 2] = kani::any();
                let mut w = World::new(i.s, i.a, i.q);
                let mut seen = Seen::ZERO;
                {
                    let mut ctx: $ctx<'_, Empty> = (w.deps_mut::<Empty>(), mk_env(i.height, i.time, i.tx, i.c0), info_n(sender0, $n, amt)).into();
                    see_env(&mut seen, &ctx.env);
                    see_deps_mut(&mut seen, &mut ctx.deps);
                    check_info(&ctx.info, sender0, $n, amt);
                    core::mem::forget(ctx);
                }
                check_env_deps(&i, &w, &seen);
                kani::cover!(amt[0] == 0, "zero-amount coin");
            }
        };
    }
    ctx_with_info!(ctx_exec_0, ExecCtx, 0);
    ctx_with_info!(ctx_exec_1, ExecCtx, 1);
    ctx_with_info!(ctx_exec_2, ExecCtx, 2);
    ctx_with_info!(ctx_inst_0, InstantiateCtx, 0);
    ctx_with_info!(ctx_inst_1, InstantiateCtx, 1);
    ctx_with_info!(ctx_inst_2, InstantiateCtx, 2);

    #[kani::proof]
    #[kani::unwind(4)]
    fn ctx_without_info() {
        let i = any_cin();
        let sel: u8 = kani::any();
        kani::assume(sel < 3);
        let mut w = World::new(i.s, i.a, i.q);
        let mut seen = Seen::ZERO;
        let env: Env = mk_env(i.height, i.time, i.tx, i.c0);
        match sel {
            0 => {
                let mut ctx: MigrateCtx<'_, Empty> = (w.deps_mut::<Empty>(), env).into();
                see_env(&mut seen, &ctx.env);
                see_deps_mut(&mut seen, &mut ctx.deps);
                core::mem::forget(ctx);
            }
            1 => {
                let mut ctx: SudoCtx<'_, Empty> = (w.deps_mut::<Empty>(), env).into();
                see_env(&mut seen, &ctx.env);
                see_deps_mut(&mut seen, &mut ctx.deps);
                core::mem::forget(ctx);
            }
            _ => {
                let ctx: QueryCtx<'_, Empty> = (w.deps::<Empty>(), env).into();
                see_env(&mut seen, &ctx.env);
                see_deps(&mut seen, &ctx.deps);
                core::mem::forget(ctx);
            }
        }
        check_env_deps(&i, &w, &seen);
        kani::cover!(sel == 2, "query context");
    }

    // @PLAYBACK hc@
}
